//! C28 — the SWC transform agrees with the compiler about every literal the compiler accepts.
//!
//! Domain: G-ISO literals accepted by `parse_iso_literal` (random layout: white space incl. around
//! the dot, directives with/without space after the name, keyword look-alike names) embedded in a
//! TS module located at several depths relative to the artifact directory; both module settings;
//! `artifact_directory` unset / equal to / above / below the project root.
//! Oracle: the plugin's visitor (`compile_iso_literal_visitor`, run in-process as its own tests do)
//! must produce a module whose generated code equals the code of the *expected* module:
//! field/pointer calls replaced by their function argument (`(x) => x` when not called),
//! entrypoint calls replaced by `require(<spec>).default` or by the local name of a hoisted
//! default import of `<spec>`, every other statement untouched — where `<spec>` (read from the
//! plugin's output) is a relative specifier that, resolved from the file's directory, is
//! `<root>/<artifact_directory|project_root>/__isograph/<ParentType>/<Name>/entrypoint.ts` with
//! ParentType/Name taken from the compiler's AST. Classification (entrypoint vs field/pointer)
//! comes from the compiler's parse.
use crate::parse::{panic_signature, parse};
use gen_iso::{DeclKind, Params, Printed};
use isograph_config::IsographProjectConfig;
use isograph_lang_parser::IsoLiteralExtractionResult;
use proptest::prelude::*;
use serde_json::{json, Value};
use std::path::{Component, Path, PathBuf};
use swc_core::common::errors::{Handler, HANDLER};
use swc_core::common::sync::Lrc;
use swc_core::common::{FileName, SourceMap, GLOBALS};
use swc_core::ecma::ast::{CallExpr, Callee, EsVersion, Expr, ImportDecl, ImportSpecifier, Lit, Module, ModuleDecl, ModuleItem, Program};
use swc_core::ecma::codegen::{text_writer::JsWriter, Emitter};
use swc_core::ecma::visit::{Visit, VisitWith};
use swc_ecma_parser::{parse_file_as_module, Syntax, TsSyntax};
use swc_isograph_plugin::compile_iso_literal_visitor;
use vcore::{Args, Fail, Report};

#[derive(Clone, Debug)]
pub struct Case {
    pub literal: String,
    /// "commonjs" | "esmodule"
    pub module: String,
    pub project_root: String,
    pub artifact_directory: Option<String>,
    /// path of the module relative to the root dir
    pub file: String,
    /// field/pointer: is the iso(...) call immediately called with a function?
    pub called: bool,
    /// entrypoint: wrapped in another call (`useLazyReference(iso(...), {})`)
    pub nested: bool,
}

const ROOT: &str = "/virtual/project";
const FN_ARG: &str = "function Component(props) {\n    return props.data;\n}";

fn module_source(c: &Case, replacement: Option<&str>, import: Option<(&str, &str)>) -> String {
    let call = match replacement {
        Some(r) => r.to_string(),
        None => {
            let mut s = format!("iso(`{}`)", c.literal);
            if c.called {
                s.push_str(&format!("({FN_ARG})"));
            }
            s
        }
    };
    let mut out = String::new();
    if let Some((local, spec)) = import {
        out.push_str(&format!("import {local} from {};\n", serde_json::to_string(spec).unwrap()));
    }
    out.push_str("import { iso } from '@iso';\n");
    out.push_str("const before = \"é 😀\";\n");
    if c.nested {
        out.push_str(&format!("export const Exported = useLazyReference({call}, {{}});\n"));
    } else {
        out.push_str(&format!("export const Exported = {call};\n"));
    }
    out.push_str("export function after(a: number) {\n    return a + 1;\n}\n");
    out
}

fn parse_module(cm: &Lrc<SourceMap>, src: String) -> Result<Module, String> {
    let fm = cm.new_source_file(Lrc::new(FileName::Custom("module.tsx".into())), src);
    let mut errors = vec![];
    let m = parse_file_as_module(&fm, Syntax::Typescript(TsSyntax { tsx: true, ..Default::default() }), EsVersion::latest(), None, &mut errors)
        .map_err(|e| format!("{e:?}"))?;
    if !errors.is_empty() {
        return Err(format!("{errors:?}"));
    }
    Ok(m)
}

fn emit(cm: &Lrc<SourceMap>, m: &Module) -> String {
    let mut buf = vec![];
    {
        let mut emitter = Emitter { cfg: Default::default(), cm: cm.clone(), comments: None, wr: JsWriter::new(cm.clone(), "\n", &mut buf, None) };
        emitter.emit_module(m).expect("emit");
    }
    String::from_utf8_lossy(&buf).to_string()
}

#[derive(Default)]
struct Finder {
    requires: Vec<String>,
}

impl Visit for Finder {
    fn visit_call_expr(&mut self, c: &CallExpr) {
        if let Callee::Expr(e) = &c.callee {
            if let Expr::Ident(i) = &**e {
                if &*i.sym == "require" {
                    if let Some(a) = c.args.first() {
                        if let Expr::Lit(Lit::Str(s)) = &*a.expr {
                            self.requires.push(s.value.to_string());
                        }
                    }
                }
            }
        }
        c.visit_children_with(self);
    }
}

fn default_imports(m: &Module) -> Vec<(String, String)> {
    let mut v = vec![];
    for item in &m.body {
        if let ModuleItem::ModuleDecl(ModuleDecl::Import(ImportDecl { specifiers, src, .. })) = item {
            for s in specifiers {
                if let ImportSpecifier::Default(d) = s {
                    v.push((d.local.sym.to_string(), src.value.to_string()));
                }
            }
        }
    }
    v
}

fn normalise(p: &Path) -> PathBuf {
    let mut out = PathBuf::new();
    for c in p.components() {
        match c {
            Component::ParentDir => {
                out.pop();
            }
            Component::CurDir => {}
            other => out.push(other.as_os_str()),
        }
    }
    out
}

pub struct Stats {
    pub accepted: bool,
    pub entrypoint: bool,
    pub skipped: Option<&'static str>,
}

struct Transformed {
    code: String,
    requires: Vec<String>,
    imports: Vec<(String, String)>,
    errors: String,
}

fn transform(c: &Case, config: &IsographProjectConfig) -> Result<Result<Transformed, String>, String> {
    let filename = format!("{ROOT}/{}", c.file);
    vcore::catch_panic(|| {
        GLOBALS.set(&Default::default(), || {
            let cm: Lrc<SourceMap> = Default::default();
            let input = match parse_module(&cm, module_source(c, None, None)) {
                Ok(m) => m,
                Err(e) => return Err(e),
            };
            let err_buf: Lrc<std::sync::Mutex<Vec<u8>>> = Default::default();
            struct W(Lrc<std::sync::Mutex<Vec<u8>>>);
            impl std::io::Write for W {
                fn write(&mut self, b: &[u8]) -> std::io::Result<usize> {
                    self.0.lock().unwrap().extend_from_slice(b);
                    Ok(b.len())
                }
                fn flush(&mut self) -> std::io::Result<()> {
                    Ok(())
                }
            }
            let handler = Handler::with_emitter_writer(Box::new(W(err_buf.clone())), Some(cm.clone()));
            let out = HANDLER.set(&handler, || {
                let program = Program::Module(input);
                program.apply(compile_iso_literal_visitor(config, Path::new(&filename), Path::new(ROOT), None))
            });
            let m = match out {
                Program::Module(m) => m,
                Program::Script(_) => return Err("transform returned a script".to_string()),
            };
            let mut f = Finder::default();
            m.visit_with(&mut f);
            let errors = String::from_utf8_lossy(&err_buf.lock().unwrap()).to_string();
            Ok(Transformed { code: emit(&cm, &m), requires: f.requires, imports: default_imports(&m), errors })
        })
    })
}

fn emit_source(src: String) -> Result<String, String> {
    GLOBALS.set(&Default::default(), || {
        let cm: Lrc<SourceMap> = Default::default();
        let m = parse_module(&cm, src)?;
        Ok(emit(&cm, &m))
    })
}

fn header_is_canonical(c: &Case, kind: DeclKind, ty: &str, name: &str) -> bool {
    let head = format!("{} {ty}.{name}", kind.keyword());
    let lit = c.literal.trim_start();
    lit.starts_with(&head) && lit[head.len()..].chars().next().is_none_or(|ch| !(ch.is_ascii_alphanumeric() || ch == '_'))
}

pub fn check(c: &Case) -> Result<Stats, Fail> {
    let decl = match vcore::catch_panic(|| parse(&c.literal)) {
        Ok(Ok(d)) => d,
        _ => return Ok(Stats { accepted: false, entrypoint: false, skipped: Some("rejected-by-compiler") }),
    };
    let (is_entry, ty, name) = match &decl {
        IsoLiteralExtractionResult::EntrypointDeclaration(e) => (true, e.item.parent_type.item.to_string(), e.item.client_field_name.item.to_string()),
        IsoLiteralExtractionResult::ClientFieldDeclaration(f) => (false, f.item.parent_type.item.to_string(), f.item.client_field_name.item.to_string()),
        IsoLiteralExtractionResult::ClientPointerDeclaration(p) => (false, p.item.parent_type.item.to_string(), p.item.client_pointer_name.item.to_string()),
    };
    let mut cfg = json!({"project_root": c.project_root, "schema": "./schema.graphql", "options": {"module": c.module}});
    if let Some(a) = &c.artifact_directory {
        cfg["artifact_directory"] = json!(a);
    }
    let config: IsographProjectConfig = serde_json::from_value(cfg).map_err(|e| Fail::new("harness:config", e.to_string()))?;
    let t = match transform(c, &config) {
        Ok(Ok(t)) => t,
        // swc cannot parse our input module: not a statement about the plugin
        Ok(Err(_)) => return Ok(Stats { accepted: true, entrypoint: is_entry, skipped: Some("swc-cannot-parse-input") }),
        Err(p) => return Err(Fail::new(panic_signature(&p), format!("the transform panicked: {p}\ncase: {}", to_json(c)))),
    };
    let kind = if is_entry { "entrypoint" } else { "field-or-pointer" };
    let describe = |what: &str, t: &Transformed| format!("{what}\ncompiler: {kind} {ty}.{name}\nplugin errors: {:?}\noutput:\n{}\ncase: {}", t.errors, t.code, to_json(c));
    if t.code.contains("iso(") {
        return Err(Fail::new(
            format!("classification:{kind}-not-transformed"),
            describe("the compiler accepts this literal but the transform left the iso(...) call in place", &t),
        ));
    }
    let expected_src = if !is_entry {
        if !t.requires.is_empty() || !t.imports.iter().all(|(_, s)| s == "@iso") {
            return Err(Fail::new("classification:field-treated-as-entrypoint", describe("a field/pointer literal produced an artifact import", &t)));
        }
        module_source(c, Some(if c.called { FN_ARG } else { "(x)=>x" }), None)
    } else {
        let artifact_dir = normalise(&Path::new(ROOT).join(c.artifact_directory.as_deref().unwrap_or(&c.project_root)).join("__isograph"));
        let expected_path = artifact_dir.join(&ty).join(&name).join("entrypoint.ts");
        let file_dir = normalise(Path::new(&format!("{ROOT}/{}", c.file)).parent().unwrap());
        let (spec, src) = if c.module == "commonjs" {
            let Some(spec) = t.requires.first().cloned() else {
                return Err(Fail::new("entrypoint:no-require", describe("commonjs: no require(...) call in the output", &t)));
            };
            let src = module_source(c, Some(&format!("require({}).default", serde_json::to_string(&spec).unwrap())), None);
            (spec, src)
        } else {
            let Some((local, spec)) = t.imports.iter().find(|(_, s)| s != "@iso").cloned() else {
                return Err(Fail::new("entrypoint:no-import", describe("esmodule: no hoisted default import in the output", &t)));
            };
            let src = module_source(c, Some(&local), Some((&local, &spec)));
            (spec, src)
        };
        if !(spec.starts_with("./") || spec.starts_with("../")) {
            return Err(Fail::new(
                "entrypoint:specifier-not-relative",
                describe(&format!("the specifier {spec:?} is not a relative path: a module loader resolves it as a package, not from the file (expected {expected_path:?})"), &t),
            ));
        }
        let resolved = normalise(&file_dir.join(&spec));
        if resolved != expected_path {
            return Err(Fail::new(
                "entrypoint:wrong-artifact-path",
                describe(&format!("the specifier {spec:?} resolves to {resolved:?}; the compiler writes {expected_path:?}"), &t),
            ));
        }
        src
    };
    let expected = emit_source(expected_src.clone()).map_err(|e| Fail::new("harness:expected-module", format!("{e}\n{expected_src}")))?;
    if expected != t.code {
        return Err(Fail::new(
            format!("code:{kind}"),
            describe(&format!("generated code differs from the expected module\nexpected:\n{expected}"), &t),
        ));
    }
    let _ = header_is_canonical;
    Ok(Stats { accepted: true, entrypoint: is_entry, skipped: None })
}

pub fn to_json(c: &Case) -> Value {
    json!({"literal": c.literal, "module": c.module, "project_root": c.project_root, "artifact_directory": c.artifact_directory,
        "file": c.file, "called": c.called, "nested": c.nested})
}

pub fn from_json(v: &Value) -> Case {
    Case {
        literal: v["literal"].as_str().unwrap_or_default().to_string(),
        module: v["module"].as_str().unwrap_or("esmodule").to_string(),
        project_root: v["project_root"].as_str().unwrap_or("./src").to_string(),
        artifact_directory: v["artifact_directory"].as_str().map(|s| s.to_string()),
        file: v["file"].as_str().unwrap_or("src/A.tsx").to_string(),
        called: v["called"].as_bool().unwrap_or(true),
        nested: v["nested"].as_bool().unwrap_or(false),
    }
}

/// (project_root, artifact_directory, files under the project root)
const LOCATIONS: &[(&str, Option<&str>, &[&str])] = &[
    ("./src", None, &["src/A.tsx", "src/components/A.tsx", "src/a/b/c/A.tsx"]),
    ("./src/components", Some("./src/components"), &["src/components/A.tsx", "src/components/x/A.tsx"]),
    ("./src/components", Some("./src"), &["src/components/A.tsx", "src/components/deep/er/A.tsx"]),
    (".", None, &["A.tsx", "pages/A.tsx"]),
    // artifact directory below the project root: files may sit above it
    ("./src", Some("./src/generated"), &["src/A.tsx", "src/components/A.tsx", "src/generated/extra/A.tsx"]),
    ("./src", Some("./artifacts"), &["src/A.tsx", "src/x/y/A.tsx"]),
];

fn case_strategy(params: Params, exclude_below: bool) -> BoxedStrategy<(Printed, Case)> {
    let locs: Vec<_> = LOCATIONS.iter().filter(|l| !(exclude_below && l.1 == Some("./src/generated"))).cloned().collect();
    (
        gen_iso::printed_only(&params),
        proptest::sample::select(locs),
        any::<u16>(),
        any::<bool>(),
        proptest::bool::weighted(0.9),
        any::<bool>(),
    )
        .prop_map(|(pr, (root, art, files), fi, commonjs, called, nested)| {
            let file = files[vcore::pick_index(fi, files.len())];
            let c = Case {
                literal: pr.text.clone(),
                module: if commonjs { "commonjs" } else { "esmodule" }.to_string(),
                project_root: root.to_string(),
                artifact_directory: art.map(|s| s.to_string()),
                file: file.to_string(),
                called: pr.kind != DeclKind::Entrypoint && called,
                nested: pr.kind == DeclKind::Entrypoint && nested,
            };
            (pr, c)
        })
        .boxed()
}

pub fn run(args: &Args) {
    let report = Report::new(
        args,
        "exploration",
        "G-ISO literals accepted by the compiler x {commonjs, esmodule} x 6 project/artifact directory shapes x file depth; \
         non-trivial = the header is not in canonical `kw Type.name` form or the file is not directly in the directory that \
         contains __isograph; distinct by (literal, file, config)",
    );
    report.engine("pbt");
    report.assumption("swc's parser and code generator are trusted for comparing modules (both sides go through the same code generator)");
    report.assumption("literal text contains no backtick and no ${ (the compiler's extraction regex could not deliver it otherwise)");
    if let Some(path) = &args.replay {
        let v = vcore::read_replay(path);
        let c = from_json(&v["input"]);
        report.case(Some(c.literal.as_str()), &["replay"]);
        report.case(Some("replay-marker"), &[]);
        if let Err(f) = check(&c) {
            report.violation("replay", &f, to_json(&c));
        }
        report.finish();
    }
    report.run_regressions(|input| check(&from_json(input)).map(|_| ()));
    // entrypoints are the interesting half: weight them up
    let params = Params { kinds: vec![DeclKind::Entrypoint, DeclKind::Entrypoint, DeclKind::Field, DeclKind::Pointer], ..Params::default() };
    let exotic = Params { exotic_ws: true, ..params.clone() };
    let run_one = |(pr, c): &(Printed, Case)| -> Result<(), Fail> {
        let st = check(c)?;
        let dir_of_file = Path::new(&c.file).parent().map(|p| p.to_path_buf()).unwrap_or_default();
        let art_parent = normalise(Path::new(c.artifact_directory.as_deref().unwrap_or(&c.project_root)));
        let at_root = normalise(&dir_of_file) == art_parent;
        let canonical = header_is_canonical(c, pr.kind, &pr.parent_type, &pr.name);
        let mut labels = vec![c.module.clone(), format!("kind:{}", pr.kind.keyword())];
        labels.push(if canonical { "header-canonical".into() } else { "header-not-canonical".into() });
        labels.push(if at_root { "file-next-to-__isograph".into() } else { "file-elsewhere".into() });
        labels.push(format!("artifact_directory:{}", c.artifact_directory.as_deref().unwrap_or("unset")));
        if let Some(s) = st.skipped {
            labels.push(format!("skipped:{s}"));
        }
        let l: Vec<&str> = labels.iter().map(|s| s.as_str()).collect();
        let key = (c.literal.as_str(), c.file.as_str(), c.module.as_str(), c.artifact_directory.as_deref());
        report.case(if st.skipped.is_none() && (!canonical || !at_root) { Some(&key) } else { None }, &l);
        crate::sample(&report, if st.entrypoint { "entrypoint" } else { "field-or-pointer" }, 2, || to_json(c));
        Ok(())
    };
    let below_known = report.is_known("entrypoint:specifier-not-relative");
    crate::drive_parallel(&report, "transform", args.tier.pick(80_000, 800_000), || case_strategy(params.clone(), below_known), run_one, |(_, c)| to_json(c));
    crate::drive_parallel(&report, "transform-exotic-ws", args.tier.pick(20_000, 200_000), || case_strategy(exotic.clone(), below_known), run_one, |(_, c)| to_json(c));
    report.finish();
}
