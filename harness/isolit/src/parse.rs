//! Thin wrapper around `parse_iso_literal` shared by the checks.
use common_lang_types::{DiagnosticResult, TextSource};
use intern::string_key::Intern;
use isograph_lang_parser::{parse_iso_literal, IsoLiteralExtractionResult};

pub const FILE: &str = "src/generated_case.tsx";

pub fn text_source() -> TextSource {
    TextSource { relative_path_to_source_file: FILE.intern().into(), span: None }
}

/// Parse as the compiler does for an exported, immediately-called literal.
pub fn parse(text: &str) -> DiagnosticResult<IsoLiteralExtractionResult> {
    parse_iso_literal(text.to_string(), FILE.intern().into(), Some("Exported".to_string()), text_source())
}

/// Root-cause signature of a panic: message with digit runs collapsed + source file name.
pub fn panic_signature(p: &str) -> String {
    let (msg, loc) = p.rsplit_once(" @ ").unwrap_or((p, ""));
    let first = msg.lines().next().unwrap_or("");
    let mut s = String::new();
    let mut in_digits = false;
    for c in first.chars() {
        if c.is_ascii_digit() {
            if !in_digits {
                s.push('N');
            }
            in_digits = true;
        } else {
            in_digits = false;
            s.push(c);
        }
    }
    // the variable part of `expect` messages comes after the first ':'
    let head = s.split(':').next().unwrap_or("").trim().to_string();
    let file = loc.rsplit('/').next().unwrap_or("").split(':').next().unwrap_or("");
    let head: String = head.chars().take(70).collect();
    format!("panic:{head}@{file}")
}

/// All `Span { start: N, end: M }` occurrences in a Debug rendering.
pub fn spans_in_debug(dbg: &str) -> Vec<(u64, u64)> {
    let mut out = vec![];
    let pat = "Span { start: ";
    let mut rest = dbg;
    while let Some(i) = rest.find(pat) {
        rest = &rest[i + pat.len()..];
        let a: String = rest.chars().take_while(|c| c.is_ascii_digit()).collect();
        let after = &rest[a.len()..];
        if let Some(after) = after.strip_prefix(", end: ") {
            let b: String = after.chars().take_while(|c| c.is_ascii_digit()).collect();
            if let (Ok(a), Ok(b)) = (a.parse(), b.parse()) {
                out.push((a, b));
            }
        }
    }
    out
}

pub fn span_ok(text: &str, s: u64, e: u64) -> bool {
    s <= e && (e as usize) <= text.len() && text.is_char_boundary(s as usize) && text.is_char_boundary(e as usize)
}
