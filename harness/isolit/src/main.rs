//! isolit — iso-literal-level properties: C07 (parser total, spans well-formed), C22 (formatting),
//! C23 (LSP positions under UTF-16), C28 (SWC transform vs compiler parse), C32 (resolve_position).
use proptest::prelude::*;
use serde_json::Value;
use vcore::{Fail, Report};

mod c07;
mod c07_fuzz;
mod c22;
mod c23;
mod c28;
mod c32;
mod lspenv;
mod parse;

fn main() {
    let args = vcore::parse_args();
    match args.property.as_str() {
        "C07" => c07::run(&args),
        "C22" => c22::run(&args),
        "C23" => c23::run(&args),
        "C28" => c28::run(&args),
        "C32" => c32::run(&args),
        other => vcore::inconclusive(&format!("isolit: unknown property {other}")),
    }
}

/// Run one generated domain with proptest; report the first failure that is not a listed finding.
pub fn drive<S, F, J>(report: &Report, name: &str, cases: u32, strategy: S, f: F, to_json: J)
where
    S: Strategy,
    S::Value: Clone,
    F: Fn(&S::Value) -> Result<(), Fail>,
    J: Fn(&S::Value) -> Value,
{
    if report.violation_count() > 0 {
        return;
    }
    if let Some((value, fail)) = vcore::run_prop(report, name, cases, strategy, f) {
        report.violation(name, &fail, to_json(&value));
    }
    report.unfreeze();
}

/// Same, on several worker threads (each with a derived seed).
pub fn drive_parallel<S, F, J, M>(report: &Report, name: &str, cases: u32, make: M, f: F, to_json: J)
where
    S: Strategy,
    S::Value: Clone + Send,
    M: Fn() -> S + Sync,
    F: Fn(&S::Value) -> Result<(), Fail> + Sync,
    J: Fn(&S::Value) -> Value,
{
    if report.violation_count() > 0 {
        return;
    }
    let workers = vcore::num_workers().min(8);
    if let Some((value, fail)) = vcore::run_prop_parallel(report, name, cases, workers, make, f) {
        report.violation(name, &fail, to_json(&value));
    }
    report.unfreeze();
}
