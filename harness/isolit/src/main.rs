fn main() {
    vcore::inconclusive("isolit: not built yet");
}
