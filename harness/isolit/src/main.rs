//! isolit — iso-literal-level properties: C07 (parser total, spans well-formed), C22 (formatting),
//! C23 (LSP positions under UTF-16), C28 (SWC transform vs compiler parse), C32 (resolve_position).
use proptest::prelude::*;
use serde_json::Value;
use vcore::{Fail, Report};

mod c07;
mod c07_fuzz;
mod c22;
mod c23;
mod c28;
mod c32;
mod lspenv;
mod parse;

fn main() {
    let args = vcore::parse_args();
    match args.property.as_str() {
        "C07" => c07::run(&args),
        "C22" => c22::run(&args),
        "C23" => c23::run(&args),
        "C28" => c28::run(&args),
        "C32" => c32::run(&args),
        other => vcore::inconclusive(&format!("isolit: unknown property {other}")),
    }
}

/// Run one generated domain with proptest; report the first failure that is not a listed finding.
pub fn drive<S, F, J>(report: &Report, name: &str, cases: u32, strategy: S, f: F, to_json: J)
where
    S: Strategy,
    S::Value: Clone,
    F: Fn(&S::Value) -> Result<(), Fail>,
    J: Fn(&S::Value) -> Value,
{
    if report.violation_count() > 0 {
        return;
    }
    if let Some((value, fail)) = vcore::run_prop(report, name, cases, strategy, f) {
        report.violation(name, &fail, to_json(&value));
    }
    report.unfreeze();
}

/// Samples are recorded only during the sequential pre-pass of `drive_parallel` (and in
/// sequential drivers), so the evidence file is the same on every run with the same seed.
static SAMPLING: std::sync::atomic::AtomicBool = std::sync::atomic::AtomicBool::new(true);

pub fn sample(report: &Report, kind: &str, max_per_kind: usize, v: impl FnOnce() -> Value) {
    if SAMPLING.load(std::sync::atomic::Ordering::SeqCst) {
        report.sample(kind, max_per_kind, v);
    }
}

/// Fixed number of workers: the case stream must not depend on the machine.
pub const WORKERS: usize = 8;

/// Same, on `WORKERS` threads (each with a derived seed) after a short sequential pre-pass that
/// provides the evidence samples deterministically.
pub fn drive_parallel<S, F, J, M>(report: &Report, name: &str, cases: u32, make: M, f: F, to_json: J)
where
    S: Strategy,
    S::Value: Clone + Send,
    M: Fn() -> S + Sync,
    F: Fn(&S::Value) -> Result<(), Fail> + Sync,
    J: Fn(&S::Value) -> Value,
{
    if report.violation_count() > 0 {
        return;
    }
    let pre = 32.min(cases);
    if let Some((value, fail)) = vcore::run_prop_seeded(report, vcore::derive_seed(report.seed, name, 1_000_003), pre, make(), &f) {
        report.violation(name, &fail, to_json(&value));
        report.unfreeze();
        return;
    }
    SAMPLING.store(false, std::sync::atomic::Ordering::SeqCst);
    let r = vcore::run_prop_parallel(report, name, cases - pre, WORKERS, make, f);
    SAMPLING.store(true, std::sync::atomic::Ordering::SeqCst);
    if let Some((value, fail)) = r {
        report.violation(name, &fail, to_json(&value));
    }
    report.unfreeze();
}
