//! C23 — language-server positions address the right text under the protocol's UTF-16 columns.
//!
//! Domains: (A) G-ISO documents (1–3 arbitrary literals, random layout, block-string descriptions,
//! non-ASCII / astral noise before and between literals, LF/CRLF); (B) documents whose literals
//! are valid against the scratch project's schema (so hover / go-to-definition have answers),
//! optionally with one planted error (unknown field, deleted closing brace).
//! Oracle (reference converter byte offset <-> (line, UTF-16 column) in `lspenv`):
//! * semantic tokens: the decoded delta stream gives ranges that are increasing and
//!   non-overlapping and whose byte range (UTF-16 slicing with the protocol's clamping at the line
//!   end) is exactly one generator token of an accepted literal, multi-line tokens split per line;
//! * formatting edits, published diagnostics, definition results: the range equals the reference
//!   conversion of the byte span the compiler attached (literal range / diagnostic location /
//!   `entity_definition_location` / `selectable_definition_location`);
//! * hover / definition requests at the UTF-16 position of the first (when white space precedes
//!   the token) and last character of a parent-type or selection-name token answer about that
//!   token (hover names it, definition goes to its definition).
use crate::lspenv::{self, lsp_position_to_offset, offset_to_lsp_position, Env};
use crate::parse::panic_signature;
use common_lang_types::{EmbeddedLocation, TextSource};
use gen_iso::{DeclKind, Description, Directive, Layout, Literal, Params, Printed, Role, Selection, Value as IsoValue};
use intern::string_key::Intern;
use isograph_lang_parser::parse_iso_literal;
use isograph_lsp::verif::{iso_diagnostics_to_params, on_format, on_goto_definition, on_hover, on_semantic_token_full_request};
use isograph_schema::{entity_definition_location, selectable_definition_location, validate_entire_schema};
use lsp_types::{
    DocumentFormattingParams, FormattingOptions, GotoDefinitionParams, GotoDefinitionResponse, HoverContents, HoverParams, Position,
    SemanticTokensParams, SemanticTokensResult, TextDocumentIdentifier, TextDocumentPositionParams,
};
use proptest::prelude::*;
use serde_json::{json, Value};
use std::collections::{BTreeSet, HashMap};
use vcore::{Args, Fail, Report};

// ---- case -------------------------------------------------------------------------------------------

#[derive(Clone, Debug)]
pub struct Probe {
    /// byte range of the token in the document
    pub start: usize,
    pub end: usize,
    /// "entity" (parent-type token) or "selectable" (selection-name token)
    pub kind: String,
    /// entity name, or the type that contains the selected field
    pub type_name: String,
    /// selected field (selectable probes)
    pub field: Option<String>,
}

#[derive(Clone, Debug)]
pub struct Lit {
    pub start: usize,
    pub end: usize,
    pub export_name: Option<String>,
    /// generator tokens (byte ranges in the document)
    pub tokens: Vec<(usize, usize)>,
}

#[derive(Clone, Debug)]
pub struct Case {
    pub doc: String,
    pub literals: Vec<Lit>,
    pub probes: Vec<Probe>,
    pub check_diagnostics: bool,
}

fn to_json(c: &Case) -> Value {
    json!({
        "doc": c.doc,
        "literals": c.literals.iter().map(|l| json!({"start": l.start, "end": l.end, "export_name": l.export_name, "tokens": l.tokens.iter().map(|t| json!([t.0, t.1])).collect::<Vec<_>>()})).collect::<Vec<_>>(),
        "probes": c.probes.iter().map(|p| json!({"start": p.start, "end": p.end, "kind": p.kind, "type_name": p.type_name, "field": p.field})).collect::<Vec<_>>(),
        "check_diagnostics": c.check_diagnostics,
    })
}

fn from_json(v: &Value) -> Case {
    let us = |x: &Value| x.as_u64().unwrap_or(0) as usize;
    Case {
        doc: v["doc"].as_str().unwrap_or_default().to_string(),
        literals: v["literals"]
            .as_array()
            .map(|a| {
                a.iter()
                    .map(|l| Lit {
                        start: us(&l["start"]),
                        end: us(&l["end"]),
                        export_name: l["export_name"].as_str().map(|s| s.to_string()),
                        tokens: l["tokens"].as_array().map(|t| t.iter().map(|x| (us(&x[0]), us(&x[1]))).collect()).unwrap_or_default(),
                    })
                    .collect()
            })
            .unwrap_or_default(),
        probes: v["probes"]
            .as_array()
            .map(|a| {
                a.iter()
                    .map(|p| Probe {
                        start: us(&p["start"]),
                        end: us(&p["end"]),
                        kind: p["kind"].as_str().unwrap_or("").to_string(),
                        type_name: p["type_name"].as_str().unwrap_or("").to_string(),
                        field: p["field"].as_str().map(|s| s.to_string()),
                    })
                    .collect()
            })
            .unwrap_or_default(),
        check_diagnostics: v["check_diagnostics"].as_bool().unwrap_or(false),
    }
}

// ---- oracle -----------------------------------------------------------------------------------------

fn accepted_by_parser(text: &str, export_name: &Option<String>) -> bool {
    let file = crate::parse::FILE.intern().into();
    matches!(
        vcore::catch_panic(|| parse_iso_literal(text.to_string(), file, export_name.clone(), TextSource { relative_path_to_source_file: file, span: None })),
        Ok(Ok(_))
    )
}

fn nonascii_before_on_line(doc: &str, offset: usize) -> bool {
    let ls = doc[..offset].rfind('\n').map(|i| i + 1).unwrap_or(0);
    !doc[ls..offset].is_ascii()
}

/// Split a token into per-line pieces with the line terminator stripped.
fn pieces(doc: &str, s: usize, e: usize) -> Vec<(usize, usize)> {
    let mut out = vec![];
    let mut at = s;
    for seg in doc[s..e].split_inclusive('\n') {
        let body = seg.strip_suffix('\n').unwrap_or(seg);
        let body = body.strip_suffix('\r').unwrap_or(body);
        out.push((at, at + body.len()));
        at += seg.len();
    }
    out
}

#[derive(Default)]
pub struct Stats {
    pub tokens_decoded: usize,
    pub tokens_expected: usize,
    pub nontrivial_tokens: usize,
    pub multiline_tokens: usize,
    pub probes: usize,
    pub nontrivial_probes: usize,
    pub diagnostics: usize,
    pub nontrivial_diagnostics: usize,
    pub edits: usize,
    pub accepted: usize,
}

fn range_of(doc: &str, s: usize, e: usize) -> ((u32, u32), (u32, u32)) {
    (offset_to_lsp_position(doc, s), offset_to_lsp_position(doc, e))
}

fn lsp_range(r: &lsp_types::Range) -> ((u32, u32), (u32, u32)) {
    ((r.start.line, r.start.character), (r.end.line, r.end.character))
}

pub fn check(c: &Case) -> Result<Stats, Fail> {
    lspenv::with_env(|env| check_in(env, c))
}

fn sig(base: &str, nonascii: bool) -> String {
    format!("{base}:{}", if nonascii { "non-ascii-on-line" } else { "ascii" })
}

fn check_in(env: &mut Env, c: &Case) -> Result<Stats, Fail> {
    let doc = &c.doc;
    let mut st = Stats::default();
    env.open(doc);
    let tdi = TextDocumentIdentifier { uri: env.uri.clone() };
    let accepted: Vec<&Lit> = c.literals.iter().filter(|l| accepted_by_parser(&doc[l.start..l.end], &l.export_name)).collect();
    st.accepted = accepted.len();

    // ---- semantic tokens
    let params = SemanticTokensParams { text_document: tdi.clone(), work_done_progress_params: Default::default(), partial_result_params: Default::default() };
    let data = match vcore::catch_panic(|| on_semantic_token_full_request(&env.state, params)) {
        Ok(Ok(Some(SemanticTokensResult::Tokens(t)))) => t.data,
        Ok(Ok(other)) => return Err(Fail::new("semantic-tokens:no-result", format!("unexpected semantic token result {other:?}\ndoc: {doc:?}"))),
        Ok(Err(e)) => return Err(Fail::new("semantic-tokens:error", format!("semantic token request failed: {e:?}\ndoc: {doc:?}"))),
        Err(p) => return Err(Fail::new(panic_signature(&p), format!("semantic token request panicked: {p}\ndoc: {doc:?}"))),
    };
    let mut expected: HashMap<(usize, usize), bool> = HashMap::new(); // piece -> is part of a multi-line token
    for l in &accepted {
        for (s, e) in &l.tokens {
            let ps = pieces(doc, *s, *e);
            let multi = ps.len() > 1;
            if multi {
                st.multiline_tokens += 1;
            }
            for p in ps {
                expected.insert(p, multi);
            }
        }
    }
    st.tokens_expected = expected.len();
    let (mut line, mut col) = (0u32, 0u32);
    let mut prev_end: Option<(u32, u32)> = None;
    for (i, t) in data.iter().enumerate() {
        if t.delta_line > 0 {
            line += t.delta_line;
            col = t.delta_start;
        } else {
            col += t.delta_start;
        }
        if i > 0 && t.delta_line == 0 && t.delta_start == 0 {
            return Err(Fail::new("semantic-tokens:not-increasing", format!("token #{i} starts where the previous one starts ({line}:{col})\ndoc: {doc:?}")));
        }
        if let Some((pl, pe)) = prev_end {
            if pl == line && pe > col {
                // the previous token may legitimately run past its line end only through its
                // line terminator; on the same line an overlap is an overlap
                return Err(Fail::new(
                    "semantic-tokens:overlap",
                    format!("token #{i} at {line}:{col} starts before the previous token ends ({pl}:{pe})\ndoc: {doc:?}"),
                ));
            }
        }
        prev_end = Some((line, col + t.length));
        let s = lsp_position_to_offset(doc, line, col);
        let e = lsp_position_to_offset(doc, line, col + t.length);
        let (s, e) = match (s, e) {
            (Ok(s), Ok(e)) => (s, e),
            (a, b) => {
                return Err(Fail::new(
                    sig("semantic-tokens:token-text", !doc.is_ascii()),
                    format!("token #{i} at {line}:{col} len {}: {}\ndoc: {doc:?}", t.length, a.err().or(b.err()).unwrap_or_default()),
                ))
            }
        };
        st.tokens_decoded += 1;
        match expected.get(&(s, e)) {
            Some(multi) => {
                if nonascii_before_on_line(doc, s) || *multi {
                    st.nontrivial_tokens += 1;
                }
            }
            None => {
                let near = expected
                    .keys()
                    .min_by_key(|(ps, _)| (*ps as i64 - s as i64).abs())
                    .map(|(ps, pe)| format!("nearest source token {:?} at bytes {ps}..{pe} = LSP {:?}", &doc[*ps..*pe], range_of(doc, *ps, *pe)))
                    .unwrap_or_default();
                return Err(Fail::new(
                    sig("semantic-tokens:token-text", !doc[..e].is_ascii()),
                    format!(
                        "semantic token #{i} decodes to {line}:{col} length {} = bytes {s}..{e} = {:?}, which is not a source token (or a line of one); {near}\ndoc: {doc:?}",
                        t.length,
                        &doc[s..e]
                    ),
                ));
            }
        }
    }

    // ---- formatting edit ranges
    let fparams = DocumentFormattingParams {
        text_document: tdi.clone(),
        options: FormattingOptions { tab_size: 2, insert_spaces: true, ..Default::default() },
        work_done_progress_params: Default::default(),
    };
    match vcore::catch_panic(|| on_format(&env.state, fparams)) {
        Ok(Ok(Some(edits))) => {
            if edits.len() == accepted.len() {
                for (l, e) in accepted.iter().zip(&edits) {
                    st.edits += 1;
                    let exp = range_of(doc, l.start, l.end);
                    if lsp_range(&e.range) != exp {
                        return Err(Fail::new(
                            sig("edit-range", nonascii_before_on_line(doc, l.start) || nonascii_before_on_line(doc, l.end)),
                            format!("formatting edit range {:?} but the literal (bytes {}..{}) is at {:?}\ndoc: {doc:?}", lsp_range(&e.range), l.start, l.end, exp),
                        ));
                    }
                }
            }
        }
        Ok(_) => {}
        Err(p) => return Err(Fail::new(panic_signature(&p), format!("on_format panicked: {p}\ndoc: {doc:?}"))),
    }

    // ---- diagnostics
    if c.check_diagnostics {
        let diags = match vcore::catch_panic(|| validate_entire_schema(&env.state.compiler_state.db).as_ref().err().cloned().unwrap_or_default()) {
            Ok(d) => d,
            // crashes of validation are C08's subject, not a statement about positions
            Err(_) => vec![],
        };
        let (params, _) = match vcore::catch_panic(|| iso_diagnostics_to_params(&env.state.compiler_state.db, &diags, BTreeSet::new())) {
            Ok(p) => p,
            Err(p) => return Err(Fail::new(panic_signature(&p), format!("iso_diagnostics_to_params panicked: {p}\ndoc: {doc:?}"))),
        };
        let mut got: Vec<((u32, u32), (u32, u32))> =
            params.iter().filter(|p| p.uri == env.uri).flat_map(|p| p.diagnostics.iter().map(|d| lsp_range(&d.range))).collect();
        let mut want = vec![];
        let mut nontrivial = 0;
        for d in &diags {
            if let Some(loc) = d.location().and_then(|l| l.as_embedded_location()) {
                if loc.text_source.relative_path_to_source_file == env.rel {
                    let base = loc.text_source.span.map(|s| s.start).unwrap_or(0) as usize;
                    let (s, e) = (base + loc.span.start as usize, base + loc.span.end as usize);
                    if e <= doc.len() && doc.is_char_boundary(s) && doc.is_char_boundary(e) {
                        want.push(range_of(doc, s, e));
                        if nonascii_before_on_line(doc, s) || nonascii_before_on_line(doc, e) {
                            nontrivial += 1;
                        }
                    } else {
                        // a location outside the text is C07's subject
                        want.clear();
                        got.clear();
                        break;
                    }
                }
            }
        }
        got.sort();
        want.sort();
        if got != want {
            return Err(Fail::new(
                sig("diagnostic-range", nontrivial > 0),
                format!("published diagnostic ranges {got:?} but the compiler's locations convert to {want:?}\ndoc: {doc:?}"),
            ));
        }
        st.diagnostics += want.len();
        st.nontrivial_diagnostics += nontrivial;
    }

    // ---- hover / definition requests at token positions
    let schema = lspenv::SCHEMA;
    for p in &c.probes {
        let db = &env.state.compiler_state.db;
        let expected_loc: Option<EmbeddedLocation> = match p.kind.as_str() {
            "entity" => entity_definition_location(db, p.type_name.as_str().intern().into()).flatten(),
            _ => *selectable_definition_location(db, p.type_name.as_str().intern().into(), p.field.clone().unwrap_or_default().as_str().intern().into()),
        };
        let expected_def = expected_loc.map(|loc| {
            let base = loc.text_source.span.map(|s| s.start).unwrap_or(0) as usize;
            range_of(schema, base + loc.span.start as usize, base + loc.span.end as usize)
        });
        let tok = &doc[p.start..p.end];
        let last_char_start = p.start + tok.char_indices().last().map(|(i, _)| i).unwrap_or(0);
        // A position is a boundary between two characters. The token's first position is probed
        // only when white space precedes it (otherwise it is also the end of the previous token or
        // selection and either answer is defensible); the position before its last character is
        // strictly inside the token whenever the token has two or more characters.
        let mut offsets = vec![];
        if p.start == 0 || matches!(doc.as_bytes()[p.start - 1], b' ' | b'\t' | b'\n' | b'\r') {
            offsets.push(p.start);
        }
        if last_char_start > p.start {
            offsets.push(last_char_start);
        }
        for off in offsets {
            let (l, ch) = offset_to_lsp_position(doc, off);
            let nonascii = nonascii_before_on_line(doc, off);
            st.probes += 1;
            if nonascii {
                st.nontrivial_probes += 1;
            }
            let tdp = TextDocumentPositionParams { text_document: tdi.clone(), position: Position { line: l, character: ch } };
            let hp = HoverParams { text_document_position_params: tdp.clone(), work_done_progress_params: Default::default() };
            let hover = match vcore::catch_panic(|| on_hover(&env.state, hp)) {
                Ok(Ok(h)) => h.map(|h| match h.contents {
                    HoverContents::Markup(m) => m.value,
                    other => format!("{other:?}"),
                }),
                Ok(Err(e)) => Some(format!("<error {e:?}>")),
                Err(pn) => return Err(Fail::new(panic_signature(&pn), format!("on_hover panicked at {l}:{ch}: {pn}\ndoc: {doc:?}"))),
            };
            let needle = match p.kind.as_str() {
                "entity" => format!("Object **{}**", p.type_name),
                _ => format!("field **{}.{}**", p.type_name, p.field.clone().unwrap_or_default()),
            };
            if !hover.as_deref().is_some_and(|h| h.contains(&needle)) {
                return Err(Fail::new(
                    sig("hover-request", nonascii || !doc[..off].is_ascii()),
                    format!("hover at {l}:{ch} (byte {off}, inside token {tok:?}) should describe {needle:?} but answered {hover:?}\ndoc: {doc:?}"),
                ));
            }
            let gp = GotoDefinitionParams { text_document_position_params: tdp, work_done_progress_params: Default::default(), partial_result_params: Default::default() };
            let def = match vcore::catch_panic(|| on_goto_definition(&env.state, gp)) {
                Ok(Ok(Some(GotoDefinitionResponse::Scalar(loc)))) => Some((loc.uri.as_str().to_string(), lsp_range(&loc.range))),
                Ok(Ok(_)) => None,
                Ok(Err(_)) => None,
                Err(pn) => return Err(Fail::new(panic_signature(&pn), format!("on_goto_definition panicked at {l}:{ch}: {pn}\ndoc: {doc:?}"))),
            };
            if let Some(exp) = expected_def {
                match &def {
                    Some((uri, r)) if *uri == env.schema_uri && *r == exp => {}
                    Some((uri, r)) if *uri == env.schema_uri => {
                        // right file, other range: either another definition (request position
                        // resolved to another token) or a wrong conversion of the right span
                        return Err(Fail::new(
                            sig("definition-range", nonascii || !doc[..off].is_ascii()),
                            format!("definition of {needle:?} requested at {l}:{ch}: answered range {r:?}, the compiler's location converts to {exp:?}\ndoc: {doc:?}"),
                        ));
                    }
                    other => {
                        return Err(Fail::new(
                            sig("definition-request", nonascii || !doc[..off].is_ascii()),
                            format!("definition of {needle:?} requested at {l}:{ch} (byte {off}): answered {other:?}, expected {exp:?} in the schema\ndoc: {doc:?}"),
                        ))
                    }
                }
            }
        }
    }
    Ok(st)
}

// ---- generators -------------------------------------------------------------------------------------

fn case_a(d: &gen_iso::Document) -> Case {
    Case {
        doc: d.text.clone(),
        literals: d
            .literals
            .iter()
            .map(|l| Lit {
                start: l.start,
                end: l.end,
                export_name: l.export_name.clone(),
                tokens: l.printed.tokens.iter().map(|t| (l.start + t.start, l.start + t.end)).collect(),
            })
            .collect(),
        probes: vec![],
        check_diagnostics: false,
    }
}

/// (field name, argument (name, kind), target type or "" for scalars)
const SCHEMA_FIELDS: &[(&str, &[(&str, Option<(&str, &str)>, &str)])] = &[
    ("Query", &[("node", Some(("id", "id")), "Node"), ("pet", Some(("id", "id")), "Pet"), ("pets", None, "Pet"), ("me", None, "User"), ("name", None, "")]),
    ("Pet", &[("id", None, ""), ("name", None, ""), ("owner", None, "User"), ("nickname", Some(("upper", "bool")), "")]),
    ("User", &[("id", None, ""), ("name", None, ""), ("pets", Some(("first", "int")), "Pet")]),
    ("Node", &[("id", None, "")]),
];

fn fields_of(t: &str) -> &'static [(&'static str, Option<(&'static str, &'static str)>, &'static str)] {
    SCHEMA_FIELDS.iter().find(|(n, _)| *n == t).map(|(_, f)| *f).unwrap_or(&[])
}

/// A selection of type `t` plus, aligned with the pre-order of selections, the type containing it.
fn schema_selection(t: &'static str, depth: u32) -> BoxedStrategy<(Selection, Vec<&'static str>)> {
    let fields = fields_of(t);
    let p = Params::default();
    (proptest::sample::select(fields), any::<bool>(), gen_iso::string_raw(), any::<bool>(), -5i64..50, proptest::option::weighted(0.25, gen_iso::ident(&p)))
        .prop_flat_map(move |((name, arg, target), use_var, s, b, i, alias)| {
            let args = arg.map(|(an, kind)| {
                let v = match kind {
                    "id" if use_var => IsoValue::Variable("id".into()),
                    "id" => IsoValue::Str(s.clone()),
                    "bool" => IsoValue::Bool(b),
                    _ => IsoValue::Int(i.to_string()),
                };
                vec![gen_iso::Arg { name: an.to_string(), value: v }]
            });
            // arguments of nullable type may be omitted
            let args = if arg.is_some_and(|(_, k)| k != "id") && b { None } else { args };
            let alias = alias.clone();
            if target.is_empty() || depth == 0 {
                if !target.is_empty() {
                    // object field at depth 0: select its id
                    let sub = Selection { alias: None, name: "id".into(), args: None, directives: vec![], selections: None };
                    return Just((Selection { alias, name: name.to_string(), args, directives: vec![], selections: Some(vec![sub]) }, vec![t, target])).boxed();
                }
                return Just((Selection { alias, name: name.to_string(), args, directives: vec![], selections: None }, vec![t])).boxed();
            }
            proptest::collection::vec(schema_selection(target, depth - 1), 1..4)
                .prop_map(move |subs| {
                    let mut types = vec![t];
                    let mut sels = vec![];
                    for (s, ts) in subs {
                        sels.push(s);
                        types.extend(ts);
                    }
                    (Selection { alias: alias.clone(), name: name.to_string(), args: args.clone(), directives: vec![], selections: Some(sels) }, types)
                })
                .boxed()
        })
        .boxed()
}

#[derive(Clone, Debug)]
struct SchemaLit {
    printed: Printed,
    /// type containing each selection (pre-order, aligned with `printed.selections`)
    containing: Vec<String>,
    parent: String,
    /// index of the selection renamed to an unknown field
    planted_unknown: Option<usize>,
    broken: bool,
}

fn schema_literal(k: usize) -> BoxedStrategy<SchemaLit> {
    let p = Params::default();
    proptest::sample::select(&["Query", "Pet", "User"][..])
        .prop_flat_map(move |t| {
            (
                proptest::collection::vec(schema_selection(t, 2), 1..4),
                gen_iso::description(),
                any::<bool>(),
                layout_c23(&p),
                proptest::option::weighted(0.25, any::<u16>()),
                proptest::bool::weighted(0.1),
            )
                .prop_map(move |(sels, description, component, layout, plant, brk)| {
                    let mut containing: Vec<String> = vec![];
                    let mut selections = vec![];
                    for (s, ts) in sels {
                        selections.push(s);
                        containing.extend(ts.iter().map(|s| s.to_string()));
                    }
                    let lit = Literal {
                        kind: DeclKind::Field,
                        parent_type: t.to_string(),
                        name: format!("F{k}"),
                        variables: Some(vec![gen_iso::VarDef {
                            name: "id".into(),
                            type_: gen_iso::TypeAnn::Named { name: "ID".into(), non_null: true },
                            default: None,
                        }]),
                        target: None,
                        directives: if component { vec![Directive { name: "component".into(), args: None }] } else { vec![] },
                        description,
                        selections,
                    };
                    let mut lit = lit;
                    let mut planted_unknown = None;
                    if let Some(pick) = plant {
                        // rename the pick-th scalar selection (pre-order) to an unknown field
                        let total = containing.len();
                        let target = ((pick as usize) * total) >> 16;
                        let mut idx = 0usize;
                        fn walk(sels: &mut [Selection], idx: &mut usize, target: usize, done: &mut Option<usize>) {
                            for s in sels.iter_mut() {
                                let me = *idx;
                                *idx += 1;
                                if me == target && s.selections.is_none() {
                                    s.name = "zzUnknown".into();
                                    s.args = None;
                                    *done = Some(me);
                                }
                                if let Some(sub) = s.selections.as_mut() {
                                    walk(sub, idx, target, done);
                                }
                            }
                        }
                        walk(&mut lit.selections, &mut idx, target, &mut planted_unknown);
                    }
                    let mut printed = lit.print(&layout);
                    let mut broken = false;
                    if brk {
                        // delete the final closing brace: the literal no longer parses
                        if let Some(last) = printed.tokens.iter().rposition(|t| t.role == Role::SelClose) {
                            let t = printed.tokens[last].clone();
                            printed.text.replace_range(t.start..t.end, "");
                            printed.tokens.remove(last);
                            broken = true;
                        }
                    }
                    SchemaLit { printed, containing, parent: t.to_string(), planted_unknown, broken }
                })
        })
        .boxed()
}

fn case_b(d: &gen_iso::Document, metas: &[SchemaLit]) -> Case {
    let mut probes = vec![];
    for (l, m) in d.literals.iter().zip(metas) {
        if m.broken {
            continue;
        }
        for t in &l.printed.tokens {
            match t.role {
                Role::ParentType => probes.push(Probe { start: l.start + t.start, end: l.start + t.end, kind: "entity".into(), type_name: m.parent.clone(), field: None }),
                Role::SelName => {
                    if let Some(si) = t.sel {
                        if Some(si) == m.planted_unknown {
                            continue;
                        }
                        let info = &l.printed.selections[si];
                        probes.push(Probe {
                            start: l.start + t.start,
                            end: l.start + t.end,
                            kind: "selectable".into(),
                            type_name: m.containing[si].clone(),
                            field: Some(info.name.clone()),
                        });
                    }
                }
                _ => {}
            }
        }
    }
    let mut c = case_a(d);
    c.probes = probes;
    c.check_diagnostics = true;
    c
}

/// Layouts biased towards keeping many tokens on one line (so that tokens, request positions and
/// diagnostics follow non-ASCII text on their line).
fn layout_c23(p: &Params) -> BoxedStrategy<Layout> {
    let flat = |gap: &str, conventional: bool| Layout { gaps: vec![gap.to_string()], seps: vec![gen_iso::Sep::Comma], lead: String::new(), trail: String::new(), conventional };
    prop_oneof![
        6 => gen_iso::layout(p),
        2 => Just(flat(" ", true)),
        1 => Just(flat(" ", false)),
        1 => Just(flat("", false)),
    ]
    .boxed()
}

/// Noise before a literal; half of the time the last piece is a block comment with non-ASCII
/// text, which stays on the line of the `export const ... = iso(` that follows.
fn noise_before() -> BoxedStrategy<Vec<gen_iso::Noise>> {
    (
        proptest::collection::vec(gen_iso::noise(), 0..3),
        proptest::option::weighted(0.5, proptest::sample::select(&["é", "漢字 😀", "😀", "ß Ω", "e\u{301}", "👩\u{200d}💻 x", "\u{10348}"][..])),
    )
        .prop_map(|(mut v, c)| {
            if let Some(c) = c {
                v.push(gen_iso::Noise::BlockComment(c.to_string()));
            }
            v
        })
        .boxed()
}

fn doc_a() -> BoxedStrategy<gen_iso::Document> {
    let p = Params::default();
    let item = (noise_before(), (gen_iso::literal(&p), layout_c23(&p)).prop_map(|(l, lay)| l.print(&lay)), gen_iso::embedding());
    (proptest::collection::vec(item, 1..4), proptest::collection::vec(gen_iso::noise(), 0..2)).prop_map(|(items, tail)| gen_iso::assemble(&items, &tail)).boxed()
}

fn doc_b() -> BoxedStrategy<(gen_iso::Document, Vec<SchemaLit>)> {
    // literal names must be distinct within a document: draw 1..3 literals with indices 0,1,2
    let lits = (schema_literal(0), proptest::option::weighted(0.5, schema_literal(1)), proptest::option::weighted(0.3, schema_literal(2)));
    (lits, proptest::collection::vec((noise_before(), gen_iso::embedding()), 3), proptest::collection::vec(gen_iso::noise(), 0..2))
        .prop_map(|((a, b, c), wrap, tail)| {
            let metas: Vec<SchemaLit> = [Some(a), b, c].into_iter().flatten().collect();
            let items: Vec<_> = metas.iter().zip(wrap).map(|(m, (n, e))| (n, m.printed.clone(), e)).collect();
            (gen_iso::assemble(&items, &tail), metas)
        })
        .boxed()
}

#[allow(dead_code)]
fn unused(_: &Layout, _: &Description) {}

fn record(report: &Report, c: &Case, st: &Stats, domain: &str) {
    let nontrivial = st.nontrivial_tokens + st.nontrivial_probes + st.nontrivial_diagnostics > 0;
    let mut labels = vec![domain.to_string()];
    if st.multiline_tokens > 0 {
        labels.push("multi-line-token".into());
    }
    if st.nontrivial_probes > 0 {
        labels.push("request-after-non-ascii-on-line".into());
    }
    if st.nontrivial_diagnostics > 0 {
        labels.push("diagnostic-after-non-ascii-on-line".into());
    }
    if c.doc.contains("\r\n") {
        labels.push("crlf".into());
    }
    if st.accepted < c.literals.len() {
        labels.push("literal-with-planted-parse-error".into());
    }
    let l: Vec<&str> = labels.iter().map(|s| s.as_str()).collect();
    report.case(if nontrivial { Some(c.doc.as_str()) } else { None }, &l);
    report.label_n("semantic-tokens-decoded", st.tokens_decoded as u64);
    report.label_n("semantic-token-pieces-expected", st.tokens_expected as u64);
    report.label_n("semantic-tokens-nontrivial", st.nontrivial_tokens as u64);
    report.label_n("hover+definition-requests", st.probes as u64);
    report.label_n("requests-nontrivial", st.nontrivial_probes as u64);
    report.label_n("diagnostics-compared", st.diagnostics as u64);
    report.label_n("diagnostics-nontrivial", st.nontrivial_diagnostics as u64);
    report.label_n("edit-ranges-compared", st.edits as u64);
    crate::sample(report, &format!("{domain}{}", if nontrivial { "-nontrivial" } else { "" }), 1, || to_json(c));
}

pub fn run(args: &Args) {
    let report = Report::new(
        args,
        "exploration",
        "(A) G-ISO documents with 1-3 arbitrary literals, (B) schema-valid literals with optional planted error; noise with non-ASCII \
         and astral text, block-string descriptions, LF/CRLF; non-trivial = some checked token / request position / diagnostic is \
         preceded on its line by a non-ASCII character, or a token spans lines; distinct by document",
    );
    report.engine("pbt");
    report.assumption("the server does not negotiate a position encoding, so UTF-16 is mandatory; lines end at \\n (a preceding \\r belongs to the terminator); a column past the line end means the line end");
    report.assumption("lone \\r line terminators are not generated");
    if let Some(path) = &args.replay {
        let v = vcore::read_replay(path);
        let c = from_json(&v["input"]);
        report.case(Some(c.doc.as_str()), &["replay"]);
        report.case(Some("replay-marker"), &[]);
        if let Err(f) = check(&c) {
            report.violation("replay", &f, to_json(&c));
        }
        report.finish();
    }
    report.run_regressions(|input| check(&from_json(input)).map(|_| ()));
    crate::drive_parallel(
        &report,
        "tokens",
        args.tier.pick(10_000, 120_000),
        doc_a,
        |d| {
            let c = case_a(d);
            let st = check(&c)?;
            record(&report, &c, &st, "A");
            Ok(())
        },
        |d| to_json(&case_a(d)),
    );
    crate::drive_parallel(
        &report,
        "schema",
        args.tier.pick(10_000, 120_000),
        doc_b,
        |(d, m)| {
            let c = case_b(d, m);
            let st = check(&c)?;
            record(&report, &c, &st, "B");
            Ok(())
        },
        |(d, m)| to_json(&case_b(d, m)),
    );
    report.finish();
}
