//! C32 — cursor positions resolve to the innermost syntax node.
//!
//! Domain: G-ISO literals accepted by `parse_iso_literal` x every byte offset 0..=len.
//! Oracle: (a) the returned node's span and the span of every ancestor in its parent chain contain
//! the offset (typed walk over the 13 `IsographResolvedNode` variants; spans are read from the
//! parent that owns the child; the root declaration stands for the whole literal because the
//! resolver is only ever called with a position inside the literal); (b) innermost: no node the
//! resolver returns for another offset of the same literal lies strictly inside the returned
//! node's span and also contains this offset; (c) role anchors from the generator's token map:
//! unambiguous offsets inside the parent-type token resolve to `EntityNameWrapper` with exactly
//! that span, inside a selection's name to the Scalar/ObjectSelection of that name, inside a
//! variable definition's name to `VariableNameWrapper` with exactly that span.
use crate::parse::{panic_signature, parse};
use common_lang_types::Span;
use gen_iso::{Params, Printed, Role};
use isograph_lang_types::{
    ClientObjectSelectableNameWrapperParent, ClientScalarSelectableNameWrapperParent, DescriptionParent,
    EntityNameWrapperParent, IsographResolvedNode, ObjectSelectionPath, ScalarSelectionPath, SelectionParentType,
    SelectionSetParentType, SelectionSetPath, SelectionType, TypeAnnotationDeclarationParentType,
    VariableDeclarationParentType, VariableDeclarationPath, VariableNameWrapperParentType,
};
use proptest::prelude::*;
use resolve_position::ResolvePosition;
use serde_json::{json, Value};
use std::collections::BTreeSet;
use vcore::{Args, Fail, Report};

type Sp = (u32, u32);

#[derive(Clone, Debug, PartialEq, Eq, PartialOrd, Ord)]
struct Node {
    kind: &'static str,
    span: Sp,
    /// selection name for Scalar/ObjectSelection
    name: Option<String>,
}

fn sp(s: Span) -> Sp {
    (s.start, s.end)
}

const UNLOCATED: Sp = (u32::MAX, u32::MAX);

fn chain_selection_set(p: &SelectionSetPath<'_>, root: Sp, out: &mut Vec<Node>) {
    match &p.parent {
        SelectionSetParentType::ObjectSelection(op) => {
            out.push(Node { kind: "SelectionSet", span: sp(op.inner.selection_set.location.span), name: None });
            chain_object(op, root, out);
        }
        SelectionSetParentType::ClientFieldDeclaration(d) => {
            out.push(Node { kind: "SelectionSet", span: sp(d.inner.selection_set.location.span), name: None });
            out.push(Node { kind: "ClientFieldDeclaration", span: root, name: None });
        }
        SelectionSetParentType::ClientPointerDeclaration(d) => {
            out.push(Node { kind: "SelectionSet", span: sp(d.inner.selection_set.location.span), name: None });
            out.push(Node { kind: "ClientPointerDeclaration", span: root, name: None });
        }
    }
}

fn chain_object(p: &ObjectSelectionPath<'_>, root: Sp, out: &mut Vec<Node>) {
    let SelectionParentType::SelectionSet(ssp) = &p.parent;
    let span = ssp
        .inner
        .selections
        .iter()
        .find(|s| matches!(&s.item, SelectionType::Object(o) if std::ptr::eq(o, p.inner)))
        .map(|s| sp(s.location.span))
        .unwrap_or(UNLOCATED);
    out.push(Node { kind: "ObjectSelection", span, name: Some(p.inner.name.item.to_string()) });
    chain_selection_set(ssp, root, out);
}

fn chain_scalar(p: &ScalarSelectionPath<'_>, root: Sp, out: &mut Vec<Node>) {
    let SelectionParentType::SelectionSet(ssp) = &p.parent;
    let span = ssp
        .inner
        .selections
        .iter()
        .find(|s| matches!(&s.item, SelectionType::Scalar(o) if std::ptr::eq(o, p.inner)))
        .map(|s| sp(s.location.span))
        .unwrap_or(UNLOCATED);
    out.push(Node { kind: "ScalarSelection", span, name: Some(p.inner.name.item.to_string()) });
    chain_selection_set(ssp, root, out);
}

fn chain_var_decl(p: &VariableDeclarationPath<'_>, root: Sp, out: &mut Vec<Node>) {
    let (defs, parent_kind) = match &p.parent {
        VariableDeclarationParentType::ClientFieldDeclaration(d) => (&d.inner.variable_definitions, "ClientFieldDeclaration"),
        VariableDeclarationParentType::ClientPointerDeclaration(d) => (&d.inner.variable_definitions, "ClientPointerDeclaration"),
    };
    let span = defs.iter().find(|v| std::ptr::eq(&v.item, p.inner)).map(|v| sp(v.location.span)).unwrap_or(UNLOCATED);
    out.push(Node { kind: "VariableDeclarationInner", span, name: None });
    out.push(Node { kind: parent_kind, span: root, name: None });
}

/// The returned node followed by its ancestors up to the root declaration.
fn chain(node: &IsographResolvedNode<'_>, root: Sp) -> Vec<Node> {
    let mut out = vec![];
    let leaf = |kind: &'static str, span: Span| Node { kind, span: sp(span), name: None };
    let rootn = |kind: &'static str| Node { kind, span: root, name: None };
    match node {
        IsographResolvedNode::EntrypointDeclaration(_) => out.push(rootn("EntrypointDeclaration")),
        IsographResolvedNode::ClientFieldDeclaration(_) => out.push(rootn("ClientFieldDeclaration")),
        IsographResolvedNode::ClientPointerDeclaration(_) => out.push(rootn("ClientPointerDeclaration")),
        IsographResolvedNode::EntityNameWrapper(p) => match &p.parent {
            EntityNameWrapperParent::EntrypointDeclaration(d) => {
                out.push(leaf("EntityNameWrapper", d.inner.parent_type.location.span));
                out.push(rootn("EntrypointDeclaration"));
            }
            EntityNameWrapperParent::ClientFieldDeclaration(d) => {
                out.push(leaf("EntityNameWrapper", d.inner.parent_type.location.span));
                out.push(rootn("ClientFieldDeclaration"));
            }
            EntityNameWrapperParent::ClientPointerDeclaration(d) => {
                out.push(leaf("EntityNameWrapper", d.inner.parent_type.location.span));
                out.push(rootn("ClientPointerDeclaration"));
            }
        },
        IsographResolvedNode::Description(p) => match &p.parent {
            DescriptionParent::ClientFieldDeclaration(d) => {
                out.push(leaf("Description", d.inner.description.as_ref().map(|x| x.location.span).unwrap_or(Span { start: u32::MAX, end: u32::MAX })));
                out.push(rootn("ClientFieldDeclaration"));
            }
            DescriptionParent::ClientPointerDeclaration(d) => {
                out.push(leaf("Description", d.inner.description.as_ref().map(|x| x.location.span).unwrap_or(Span { start: u32::MAX, end: u32::MAX })));
                out.push(rootn("ClientPointerDeclaration"));
            }
        },
        IsographResolvedNode::ClientScalarSelectableNameWrapper(p) => match &p.parent {
            ClientScalarSelectableNameWrapperParent::EntrypointDeclaration(d) => {
                out.push(leaf("ClientScalarSelectableNameWrapper", d.inner.client_field_name.location.span));
                out.push(rootn("EntrypointDeclaration"));
            }
            ClientScalarSelectableNameWrapperParent::ClientFieldDeclaration(d) => {
                out.push(leaf("ClientScalarSelectableNameWrapper", d.inner.client_field_name.location.span));
                out.push(rootn("ClientFieldDeclaration"));
            }
        },
        IsographResolvedNode::ClientObjectSelectableNameWrapper(p) => match &p.parent {
            ClientObjectSelectableNameWrapperParent::ClientPointerDeclaration(d) => {
                out.push(leaf("ClientObjectSelectableNameWrapper", d.inner.client_pointer_name.location.span));
                out.push(rootn("ClientPointerDeclaration"));
            }
        },
        IsographResolvedNode::TypeAnnotation(p) => match &p.parent {
            TypeAnnotationDeclarationParentType::ClientPointerDeclaration(d) => {
                out.push(leaf("TypeAnnotation", d.inner.target_type.location.span));
                out.push(rootn("ClientPointerDeclaration"));
            }
            TypeAnnotationDeclarationParentType::VariableDeclarationInner(v) => {
                out.push(leaf("TypeAnnotation", v.inner.type_.location.span));
                chain_var_decl(v, root, &mut out);
            }
        },
        IsographResolvedNode::VariableNameWrapper(p) => match &p.parent {
            VariableNameWrapperParentType::VariableDeclarationInner(v) => {
                out.push(leaf("VariableNameWrapper", v.inner.name.location.span));
                chain_var_decl(v, root, &mut out);
            }
        },
        IsographResolvedNode::VariableDeclarationInner(v) => chain_var_decl(v, root, &mut out),
        IsographResolvedNode::ScalarSelection(p) => chain_scalar(p, root, &mut out),
        IsographResolvedNode::ObjectSelection(p) => chain_object(p, root, &mut out),
        IsographResolvedNode::SelectionSet(p) => chain_selection_set(p, root, &mut out),
    }
    out
}

fn contains(s: Sp, o: u32) -> bool {
    s.0 <= o && o <= s.1
}

#[derive(Clone, Debug)]
pub struct Case {
    pub text: String,
    /// (start, end, role) with role in parent_type | sel_name | var_def_name
    pub anchors: Vec<(usize, usize, String)>,
}

pub fn case_of(p: &Printed) -> Case {
    let anchors = p
        .tokens
        .iter()
        .filter_map(|t| {
            let r = match t.role {
                Role::ParentType => "parent_type",
                Role::SelName => "sel_name",
                Role::VarDefName => "var_def_name",
                _ => return None,
            };
            Some((t.start, t.end, r.to_string()))
        })
        .collect();
    Case { text: p.text.clone(), anchors }
}

pub struct Stats {
    pub accepted: bool,
    pub kinds: BTreeSet<&'static str>,
    pub anchor_offsets: usize,
}

pub fn check(c: &Case) -> Result<Stats, Fail> {
    let text = &c.text;
    let decl = match vcore::catch_panic(|| parse(text)) {
        Ok(Ok(d)) => d,
        Ok(Err(_)) => return Ok(Stats { accepted: false, kinds: BTreeSet::new(), anchor_offsets: 0 }),
        // parser panics are C07's subject
        Err(_) => return Ok(Stats { accepted: false, kinds: BTreeSet::new(), anchor_offsets: 0 }),
    };
    let len = text.len() as u32;
    let root = (0, len);
    let mut per_offset: Vec<Vec<Node>> = Vec::with_capacity(text.len() + 1);
    for o in 0..=len {
        let ch = match vcore::catch_panic(|| chain(&decl.resolve((), Span::new(o, o)), root)) {
            Ok(c) => c,
            Err(p) => return Err(Fail::new(panic_signature(&p), format!("resolve panicked at offset {o}: {p}\ninput: {text:?}"))),
        };
        per_offset.push(ch);
    }
    // (a)
    for (o, ch) in per_offset.iter().enumerate() {
        for (depth, n) in ch.iter().enumerate() {
            if n.span == UNLOCATED {
                return Err(Fail::new(
                    "chain:node-not-owned-by-parent",
                    format!("offset {o}: {} in the parent chain is not a child of its recorded parent\ninput: {text:?}", n.kind),
                ));
            }
            if !contains(n.span, o as u32) {
                let what = if depth == 0 { "returned node" } else { "ancestor" };
                return Err(Fail::new(
                    format!("contains:{}", if depth == 0 { "returned-node" } else { "ancestor" }),
                    format!("offset {o}: {what} {} spans {}..{} which does not contain the offset; chain = {:?}\ninput: {text:?}", n.kind, n.span.0, n.span.1, ch),
                ));
            }
        }
    }
    // (b)
    let returned: BTreeSet<Node> = per_offset.iter().map(|c| c[0].clone()).collect();
    for (o, ch) in per_offset.iter().enumerate() {
        let r = &ch[0];
        for n in &returned {
            let strictly_inside = n.span.0 >= r.span.0 && n.span.1 <= r.span.1 && n.span != r.span;
            if strictly_inside && contains(n.span, o as u32) {
                return Err(Fail::new(
                    "innermost",
                    format!(
                        "offset {o}: resolver returned {} {}..{}, but {} {}..{} (returned for another offset) lies inside it and contains the offset\ninput: {text:?}",
                        r.kind, r.span.0, r.span.1, n.kind, n.span.0, n.span.1
                    ),
                ));
            }
        }
    }
    // (c)
    let bytes = text.as_bytes();
    let is_ws = |i: usize| matches!(bytes.get(i), None | Some(b' ' | b'\t' | b'\n' | b'\r' | 0x0c));
    let mut anchor_offsets = 0;
    for (s, e, role) in &c.anchors {
        if *e > text.len() || s >= e {
            continue;
        }
        let tok = &text[*s..*e];
        for o in *s..=*e {
            if o == *s && !(o == 0 || is_ws(o - 1)) {
                continue;
            }
            if o == *e && !is_ws(o) {
                continue;
            }
            anchor_offsets += 1;
            let r = &per_offset[o][0];
            let ok = match role.as_str() {
                "parent_type" => r.kind == "EntityNameWrapper" && r.span == (*s as u32, *e as u32),
                "var_def_name" => r.kind == "VariableNameWrapper" && r.span == (*s as u32, *e as u32),
                "sel_name" => (r.kind == "ScalarSelection" || r.kind == "ObjectSelection") && r.name.as_deref() == Some(tok),
                _ => true,
            };
            if !ok {
                return Err(Fail::new(
                    format!("anchor:{role}"),
                    format!("offset {o} lies in the {role} token {tok:?} ({s}..{e}) but resolves to {} {}..{} name={:?}\ninput: {text:?}", r.kind, r.span.0, r.span.1, r.name),
                ));
            }
        }
    }
    Ok(Stats { accepted: true, kinds: returned.iter().map(|n| n.kind).collect(), anchor_offsets })
}

fn to_json(c: &Case) -> Value {
    json!({"text": c.text, "anchors": c.anchors.iter().map(|(s, e, r)| json!([s, e, r])).collect::<Vec<_>>()})
}

fn from_json(v: &Value) -> Case {
    Case {
        text: v["text"].as_str().unwrap_or_default().to_string(),
        anchors: v["anchors"]
            .as_array()
            .map(|a| {
                a.iter()
                    .map(|x| (x[0].as_u64().unwrap_or(0) as usize, x[1].as_u64().unwrap_or(0) as usize, x[2].as_str().unwrap_or("").to_string()))
                    .collect()
            })
            .unwrap_or_default(),
    }
}

pub fn run(args: &Args) {
    let report = Report::new(
        args,
        "exploration",
        "G-ISO literals accepted by the parser x every byte offset 0..=len; non-trivial = the resolver returns >=4 distinct \
         node kinds over the literal's offsets (declaration, names, selections, variables...); distinct by literal text",
    );
    report.engine("pbt");
    report.assumption("the root declaration stands for the whole literal: resolve() is only called with a position inside the literal and the declaration has no parent that could own its span");
    if let Some(path) = &args.replay {
        let v = vcore::read_replay(path);
        let c = from_json(&v["input"]);
        report.case(Some(c.text.as_str()), &["replay"]);
        report.case(Some("replay-marker"), &[]);
        if let Err(f) = check(&c) {
            report.violation("replay", &f, to_json(&c));
        }
        report.finish();
    }
    report.run_regressions(|input| check(&from_json(input)).map(|_| ()));
    let params = Params { exotic_ws: true, ..Params::default() };
    let offsets = std::sync::atomic::AtomicU64::new(0);
    let anchors = std::sync::atomic::AtomicU64::new(0);
    let (acc, tot) = (std::sync::atomic::AtomicU64::new(0), std::sync::atomic::AtomicU64::new(0));
    crate::drive_parallel(
        &report,
        "resolve",
        args.tier.pick(60_000, 600_000),
        || gen_iso::printed_only(&params).prop_map(|p| case_of(&p)),
        |c| {
            let st = check(c)?;
            tot.fetch_add(1, std::sync::atomic::Ordering::Relaxed);
            if st.accepted {
                acc.fetch_add(1, std::sync::atomic::Ordering::Relaxed);
                offsets.fetch_add(c.text.len() as u64 + 1, std::sync::atomic::Ordering::Relaxed);
                anchors.fetch_add(st.anchor_offsets as u64, std::sync::atomic::Ordering::Relaxed);
                let mut labels: Vec<String> = st.kinds.iter().map(|k| format!("returns:{k}")).collect();
                labels.push("accepted".into());
                let l: Vec<&str> = labels.iter().map(|s| s.as_str()).collect();
                report.case(if st.kinds.len() >= 4 { Some(c.text.as_str()) } else { None }, &l);
                crate::sample(&report, if st.kinds.len() >= 6 { "rich" } else { "plain" }, 2, || to_json(c));
            } else {
                report.case(None::<&str>, &["rejected-by-parser"]);
            }
            Ok(())
        },
        to_json,
    );
    use std::sync::atomic::Ordering::Relaxed;
    report.extra("offsets_resolved", json!(offsets.load(Relaxed)));
    report.extra("anchor_offsets_checked", json!(anchors.load(Relaxed)));
    report.extra("generator_acceptance", json!({"accepted": acc.load(Relaxed), "generated": tot.load(Relaxed)}));
    report.finish();
}
