//! Thorough tier of C07: a libFuzzer campaign (`harness/fuzz/fuzz_targets/iso_literal.rs`, oracle
//! inside the target), fixed work: `-seed=<VERIF_SEED> -runs=N` from a fresh corpus made of the
//! parser's fixture literals plus generated G-ISO literals, with a token dictionary. Every stored
//! artifact is re-run through `c07::check_text` and reported as an ordinary replay file.
use crate::c07::check_text;
use proptest::prelude::*;
use serde_json::json;
use std::path::PathBuf;
use std::process::Command;
use vcore::{Fail, Report};

fn fixture_literals() -> Vec<String> {
    let dir = vcore::repo_root().join("crates/isograph_lang_parser/fixtures");
    let mut out = vec![];
    let mut names: Vec<PathBuf> = std::fs::read_dir(&dir).map(|rd| rd.flatten().map(|e| e.path()).collect()).unwrap_or_default();
    names.sort();
    for p in names {
        if p.to_string_lossy().ends_with(".input.js") {
            if let Ok(s) = std::fs::read_to_string(&p) {
                let mut parts = s.split('`');
                parts.next();
                while let Some(lit) = parts.next() {
                    out.push(lit.to_string());
                    parts.next();
                }
            }
        }
    }
    out
}

pub fn campaign(report: &Report, runs: u64) {
    report.engine("libfuzzer");
    let fuzz_dir = vcore::verif_root().join("harness/fuzz");
    if !fuzz_dir.join("fuzz_targets/iso_literal.rs").exists() {
        report.note_inconclusive("libfuzzer: harness/fuzz/fuzz_targets/iso_literal.rs is missing");
        return;
    }
    let scratch = vcore::scratch_base().join("fuzz-iso_literal");
    let corpus = scratch.join("corpus");
    let artifacts = scratch.join("artifacts");
    let _ = std::fs::remove_dir_all(&scratch);
    std::fs::create_dir_all(&corpus).expect("corpus dir");
    std::fs::create_dir_all(&artifacts).expect("artifact dir");
    let mut seeds = fixture_literals();
    let n_fixture = seeds.len();
    let params = gen_iso::Params { exotic_ws: true, ..Default::default() };
    seeds.extend(
        vcore::generate_values(vcore::derive_seed(report.seed, "fuzz-seeds", 0), 64, &gen_iso::printed_only(&params).prop_map(|p| p.text)),
    );
    for (i, g) in seeds.iter().enumerate() {
        std::fs::write(corpus.join(format!("seed-{i:03}")), g).expect("seed");
    }
    // token dictionary
    let mut dict = String::new();
    let mut words: Vec<String> = gen_iso::SNIPPETS.iter().map(|s| s.to_string()).collect();
    words.extend(gen_iso::NAME_POOL.iter().map(|s| s.to_string()));
    words.extend(["@component", "@loadable", "@updatable", "lazyLoadArtifact", "\\\"\"\"", "\\u00e9", "9223372036854775807", "-9223372036854775808"].map(String::from));
    for w in words {
        let mut e = String::new();
        for b in w.bytes() {
            if b == b'"' || b == b'\\' {
                e.push('\\');
                e.push(b as char);
            } else if (0x20..0x7f).contains(&b) {
                e.push(b as char);
            } else {
                e.push_str(&format!("\\x{b:02x}"));
            }
        }
        dict.push_str(&format!("\"{e}\"\n"));
    }
    let dict_path = scratch.join("iso.dict");
    std::fs::write(&dict_path, dict).expect("dict");
    let tolerate: Vec<String> = report
        .known_findings()
        .iter()
        .filter_map(|k| k.signature.strip_prefix("panic:").map(|s| s.split('@').next().unwrap_or("").to_string()))
        .collect();
    let target_dir = std::env::var("VERIF_FUZZ_TARGET_DIR").map(PathBuf::from).unwrap_or_else(|_| fuzz_dir.join("target"));
    let seed = (report.seed % 0xffff_fffe) + 1;
    let mut cmd = Command::new("cargo");
    cmd.current_dir(&fuzz_dir)
        .env("CARGO_NET_OFFLINE", "true")
        .env("CARGO_TARGET_DIR", &target_dir)
        .env("VERIF_C07_TOLERATE", tolerate.join(";"))
        .env_remove("RUSTFLAGS")
        .args(["+nightly", "fuzz", "run", "--fuzz-dir", ".", "-s", "none", "iso_literal"])
        .arg(&corpus)
        .arg("--")
        .arg(format!("-seed={seed}"))
        .arg(format!("-runs={runs}"))
        .arg(format!("-dict={}", dict_path.display()))
        .arg(format!("-artifact_prefix={}/", artifacts.display()))
        .args(["-max_len=384", "-timeout=20", "-print_final_stats=1", "-verbosity=0"]);
    let out = match cmd.output() {
        Ok(o) => o,
        Err(e) => {
            report.note_inconclusive(&format!("libfuzzer: cannot start cargo fuzz: {e}"));
            return;
        }
    };
    let text = format!("{}{}", String::from_utf8_lossy(&out.stdout), String::from_utf8_lossy(&out.stderr));
    let stat = |key: &str| text.lines().find_map(|l| l.strip_prefix(key).map(|v| v.trim().parse::<u64>().unwrap_or(0)));
    let mut found: Vec<PathBuf> = std::fs::read_dir(&artifacts).map(|rd| rd.flatten().map(|e| e.path()).collect()).unwrap_or_default();
    found.sort();
    if let Some(executed) = stat("stat::number_of_executed_units:") {
        report.label_n("libfuzzer:iso_literal:executions", executed);
        report.extra(
            "libfuzzer_iso_literal",
            json!({"executions": executed, "new_units": stat("stat::new_units_added:"), "seed": seed, "fixture_seeds": n_fixture, "generated_seeds": seeds.len() - n_fixture}),
        );
    } else if found.is_empty() {
        let tail: Vec<&str> = text.lines().rev().take(12).collect();
        report.note_inconclusive(&format!("libfuzzer: campaign did not run (build failure?): {}", tail.into_iter().rev().collect::<Vec<_>>().join(" | ")));
        println!("NOTE: libFuzzer campaign iso_literal did not run; the pbt part of the check is unaffected");
        return;
    }
    for a in found {
        let Ok(bytes) = std::fs::read(&a) else { continue };
        let Ok(s) = String::from_utf8(bytes) else { continue };
        match report.tolerate(check_text(&s).map(|_| ())) {
            Err(f) => {
                report.violation("libfuzzer-iso_literal", &f, json!({"text": s}));
            }
            Ok(()) => {
                let fail = Fail::new(
                    "libfuzzer:crash-not-reproduced-in-process",
                    format!("libFuzzer stored {} but the in-process run passes (timeout, memory, stack, or a tolerated finding)\ntext: {s:?}", a.display()),
                );
                report.note_inconclusive(&fail.message);
            }
        }
    }
    let _ = std::fs::remove_dir_all(&scratch);
}
