//! C07 — the iso literal parser is total and reports well-formed locations.
//!
//! Domain: (1) G-ISO literals printed through random layouts (expected to be accepted; the
//! acceptance rate is measured), (2) the same with rejected value kinds / hostile directives,
//! (3) 1–3 token/character level mutations of (1), (4) arbitrary Unicode text biased towards the
//! literal alphabet.
//! Oracle: `parse_iso_literal` under `catch_unwind` returns `Ok` or `Err(diagnostic)`; every
//! `Span { start, end }` in the `Debug` rendering of the result (declaration or diagnostic), every
//! semantic token's span and the diagnostic's location satisfy `start <= end <= text.len()` on
//! character boundaries; semantic tokens are strictly increasing and non-overlapping.
use crate::parse::{panic_signature, parse, span_ok, spans_in_debug};
use gen_iso::Params;
use proptest::prelude::*;
use serde_json::{json, Value};
use std::sync::atomic::{AtomicU64, Ordering};
use vcore::{Args, Fail, Report};

pub struct Outcome {
    pub accepted: bool,
    pub semantic_tokens: usize,
    pub has_selection: bool,
    /// byte offset of the diagnostic, when it has an embedded location
    pub error_at: Option<usize>,
    pub message: Option<String>,
}

pub fn check_text(text: &str) -> Result<Outcome, Fail> {
    let result = match vcore::catch_panic(|| parse(text)) {
        Ok(r) => r,
        Err(p) => return Err(Fail::new(panic_signature(&p), format!("parse_iso_literal panicked: {p}\ninput: {text:?}"))),
    };
    match result {
        Ok(decl) => {
            let dbg = format!("{decl:?}");
            for (s, e) in spans_in_debug(&dbg) {
                if !span_ok(text, s, e) {
                    return Err(Fail::new(
                        "span:ast-out-of-bounds-or-inverted",
                        format!("declaration contains Span {{ start: {s}, end: {e} }} but the text has {} bytes (or not a char boundary)\ninput: {text:?}", text.len()),
                    ));
                }
            }
            let toks = decl.semantic_tokens();
            let mut prev: Option<(u32, u32)> = None;
            for t in toks {
                let (s, e) = (t.location.span.start, t.location.span.end);
                if !span_ok(text, s as u64, e as u64) {
                    return Err(Fail::new(
                        "span:semantic-token-out-of-bounds",
                        format!("semantic token {s}..{e} outside text of {} bytes / not on char boundaries\ninput: {text:?}", text.len()),
                    ));
                }
                if let Some((ps, pe)) = prev {
                    if !(ps < s && pe <= s) {
                        return Err(Fail::new(
                            "semantic-tokens:not-increasing",
                            format!("semantic token {s}..{e} follows {ps}..{pe}: not strictly increasing / overlapping\ninput: {text:?}"),
                        ));
                    }
                }
                prev = Some((s, e));
            }
            let has_selection = dbg.contains("ScalarSelection {") || dbg.contains("ObjectSelection {");
            Ok(Outcome { accepted: true, semantic_tokens: toks.len(), has_selection, error_at: None, message: None })
        }
        Err(diag) => {
            let dbg = format!("{diag:?}");
            for (s, e) in spans_in_debug(&dbg) {
                if !span_ok(text, s, e) {
                    return Err(Fail::new(
                        "span:diagnostic-out-of-bounds-or-inverted",
                        format!(
                            "diagnostic {:?} carries Span {{ start: {s}, end: {e} }} but the text has {} bytes (or not a char boundary)\ninput: {text:?}",
                            diag.0.message,
                            text.len()
                        ),
                    ));
                }
            }
            let error_at = diag.location().and_then(|l| l.as_embedded_location()).map(|l| l.span.start as usize);
            Ok(Outcome { accepted: false, semantic_tokens: 0, has_selection: false, error_at, message: Some(diag.0.message.clone()) })
        }
    }
}

/// Independent, trivial lexeme count before `offset` (words or single punctuation characters).
fn lexemes_before(text: &str, offset: usize) -> usize {
    let mut n = 0;
    let mut in_word = false;
    for (i, c) in text.char_indices() {
        if i >= offset {
            break;
        }
        if c.is_alphanumeric() || c == '_' {
            if !in_word {
                n += 1;
            }
            in_word = true;
        } else {
            in_word = false;
            if !c.is_whitespace() {
                n += 1;
            }
        }
    }
    n
}

fn nontrivial(text: &str, o: &Outcome) -> bool {
    (o.accepted && o.has_selection) || o.error_at.is_some_and(|at| lexemes_before(text, at) >= 3)
}

static VALID_TOTAL: AtomicU64 = AtomicU64::new(0);
static VALID_ACCEPTED: AtomicU64 = AtomicU64::new(0);

fn case(report: &Report, class: &'static str, text: &str) -> Result<(), Fail> {
    match check_text(text) {
        Ok(o) => {
            if class == "valid" && !report.is_frozen() {
                VALID_TOTAL.fetch_add(1, Ordering::Relaxed);
                if o.accepted {
                    VALID_ACCEPTED.fetch_add(1, Ordering::Relaxed);
                }
            }
            let verdict = if o.accepted { "accepted" } else { "rejected" };
            let label = format!("{class}:{verdict}");
            report.case(if nontrivial(text, &o) { Some(text) } else { None }, &[label.as_str()]);
            if class == "valid" && !o.accepted {
                crate::sample(report, "valid-but-rejected", 5, || json!({"text": text, "message": o.message}));
            } else {
                crate::sample(report, &label, 1, || json!({"text": text, "message": o.message, "semantic_tokens": o.semantic_tokens}));
            }
            Ok(())
        }
        Err(f) => {
            report.case(Some(text), &[&format!("{class}:failed")]);
            Err(f)
        }
    }
}

pub fn run(args: &Args) {
    let report = Report::new(
        args,
        "exploration",
        "G-ISO literals x random layouts, their 1-3 step mutants, hostile-value variants and arbitrary Unicode text; \
         non-trivial = parses with >=1 selection, or is rejected with a diagnostic located after >=3 lexemes; distinct by text",
    );
    report.engine("pbt");
    report.assumption("literal text reaches parse_iso_literal as a Rust String (valid UTF-8), as the extraction regex delivers it");
    if let Some(path) = &args.replay {
        let v = vcore::read_replay(path);
        let text = v["input"]["text"].as_str().unwrap_or_default().to_string();
        report.case(Some(text.as_str()), &["replay"]);
        report.case(Some("replay-marker"), &[]);
        if let Err(f) = check_text(&text) {
            report.violation("replay", &f, json!({"text": text}));
        }
        report.finish();
    }
    report.run_regressions(|input| check_text(input["text"].as_str().unwrap_or_default()).map(|_| ()));

    let t = args.tier;
    let valid = Params::default();
    let exotic = Params { exotic_ws: true, ..Params::default() };
    let hostile = Params { invalid_values: true, out_of_range_ints: true, exotic_ws: true, ..Params::default() };
    let txt = |s: &String| json!({"text": s});

    crate::drive_parallel(
        &report,
        "valid",
        t.pick(30_000, 600_000),
        || gen_iso::printed_only(&valid).prop_map(|p| p.text),
        |s| case(&report, "valid", s),
        txt,
    );
    crate::drive_parallel(
        &report,
        "valid-exotic-ws",
        t.pick(10_000, 200_000),
        || gen_iso::printed_only(&exotic).prop_map(|p| p.text),
        |s| case(&report, "valid", s),
        txt,
    );
    crate::drive_parallel(
        &report,
        "hostile-values",
        t.pick(20_000, 400_000),
        || gen_iso::printed_only(&hostile).prop_map(|p| p.text),
        |s| case(&report, "hostile-values", s),
        txt,
    );
    crate::drive_parallel(
        &report,
        "mutants",
        t.pick(60_000, 1_200_000),
        || gen_iso::mutant(&exotic).prop_map(|(_, _, text)| text),
        |s| case(&report, "mutant", s),
        txt,
    );
    crate::drive_parallel(
        &report,
        "arbitrary",
        t.pick(30_000, 600_000),
        gen_iso::arbitrary_text,
        |s| case(&report, "arbitrary", s),
        txt,
    );
    if t == vcore::Tier::Thorough && report.violation_count() == 0 {
        let runs = args.rest.iter().find_map(|a| a.strip_prefix("--fuzz-runs=").and_then(|v| v.parse().ok())).unwrap_or(10_000_000u64);
        crate::c07_fuzz::campaign(&report, runs);
    }
    report.extra(
        "generator_acceptance",
        json!({"valid_generated": VALID_TOTAL.load(Ordering::Relaxed), "valid_accepted": VALID_ACCEPTED.load(Ordering::Relaxed)}),
    );
    report.finish();
}

#[allow(dead_code)]
pub fn to_json(text: &str) -> Value {
    json!({"text": text})
}
