//! A small real project (config + schema + one source file) with a `CompilerState`, as the
//! language server builds it (`server::run`), and the open-buffer mechanism of
//! `text_document::on_did_open_text_document` to swap in generated documents.
use common_lang_types::{relative_path_from_absolute_and_working_directory, CurrentWorkingDirectory, RelativePathToSourceFile};
use graphql_network_protocol::GraphQLAndJavascriptProfile;
use intern::string_key::Intern;
use isograph_compiler::CompilerState;
use isograph_config::create_config;
use isograph_lsp::verif::LspState;
use lsp_types::Uri;
use pico::Database;
use std::path::PathBuf;
use std::str::FromStr;
use std::sync::atomic::{AtomicU64, Ordering};

pub type Profile = GraphQLAndJavascriptProfile;

/// Non-ASCII (BMP) text sits in descriptions *before* definitions on the same line so that
/// definition locations in the schema are non-trivial under UTF-16.
pub const SCHEMA: &str = r#"# astral text is only possible in comments: 😀 (the schema lexer rejects it inside strings)
"""Wurzel — 根"""
type Query {
  node(id: ID!): Node
  "ein Tier é漢" pet(id: ID!): Pet
  pets: [Pet!]!
  "ß" me: User
  name: String
}

interface Node {
  id: ID!
}

"Haustier é" type Pet implements Node {
  id: ID!
  "名前" name: String!
  "所有者" owner: User
  nickname(upper: Boolean): String
}

"""Benutzer ÄÖÜ"""
type User implements Node {
  id: ID!
  name: String
  "犬 Ω" pets(first: Int): [Pet!]
}
"#;

pub const SOURCE_REL: &str = "src/case.tsx";

static COUNTER: AtomicU64 = AtomicU64::new(0);

pub struct Env {
    pub dir: PathBuf,
    pub state: LspState<'static, Profile>,
    pub rel: RelativePathToSourceFile,
    pub uri: Uri,
    pub schema_uri: String,
    docs: u64,
}

impl Env {
    pub fn new() -> Env {
        let n = COUNTER.fetch_add(1, Ordering::SeqCst);
        let dir = vcore::scratch_base().join(format!("lsp-project-{n}"));
        std::fs::create_dir_all(dir.join("src")).expect("mkdir project");
        std::fs::write(
            dir.join("isograph.config.json"),
            r#"{ "project_root": "./src", "schema": "./schema.graphql", "options": { "module": "esmodule" } }"#,
        )
        .expect("write config");
        std::fs::write(dir.join("schema.graphql"), SCHEMA).expect("write schema");
        std::fs::write(dir.join(SOURCE_REL), "// placeholder\n").expect("write source");
        let dir = dir.canonicalize().expect("canonicalize project dir");
        let cwd: CurrentWorkingDirectory = dir.to_str().expect("utf-8 path").intern().into();
        let config = create_config(&dir.join("isograph.config.json"), cwd);
        let compiler_state = match CompilerState::<Profile>::new(config, cwd) {
            Ok(s) => s,
            Err(e) => vcore::inconclusive(&format!("cannot build CompilerState on the scratch project: {e}")),
        };
        let (sender, receiver) = crossbeam::channel::unbounded::<lsp_server::Message>();
        // nothing is sent by the handler cores we call; keep both ends alive for the process
        let sender: &'static crossbeam::channel::Sender<lsp_server::Message> = Box::leak(Box::new(sender));
        Box::leak(Box::new(receiver));
        let abs = dir.join(SOURCE_REL);
        let rel = relative_path_from_absolute_and_working_directory(cwd, &abs);
        let uri = Uri::from_str(&format!("file://{}", abs.display())).expect("uri");
        let schema_uri = format!("file://{}", dir.join("schema.graphql").display());
        Env { dir, state: LspState::new(compiler_state, sender), rel, uri, schema_uri, docs: 0 }
    }

    /// What `on_did_open_text_document` / `on_did_change_text_document` do.
    pub fn open(&mut self, text: &str) {
        self.docs += 1;
        if self.docs % 64 == 0 {
            self.state.compiler_state.db.run_garbage_collection();
        }
        self.state.compiler_state.db.insert_open_file(self.rel, text.to_string());
    }
}

thread_local! {
    static ENV: std::cell::RefCell<Option<Env>> = const { std::cell::RefCell::new(None) };
}

/// Run `f` with this thread's environment (created on first use). If the code under test
/// panicked inside `f` the environment is discarded (its database may be mid-update).
pub fn with_env<T>(f: impl FnOnce(&mut Env) -> T) -> T {
    ENV.with(|cell| {
        let mut env = cell.borrow_mut().take().unwrap_or_else(Env::new);
        let r = std::panic::catch_unwind(std::panic::AssertUnwindSafe(|| f(&mut env)));
        match r {
            Ok(v) => {
                *cell.borrow_mut() = Some(env);
                v
            }
            Err(p) => {
                std::mem::forget(env);
                std::panic::resume_unwind(p)
            }
        }
    })
}

// ---- reference position arithmetic (LSP: UTF-16 code units, lines end at \n) -----------------------

/// LSP position -> byte offset with the protocol's clamping rules (a column past the end of the
/// line means the end of the line, a line past the end means the end of the document). `Err` when
/// the position splits a surrogate pair.
pub fn lsp_position_to_offset(text: &str, line: u32, col: u32) -> Result<usize, String> {
    let mut start = 0usize;
    for _ in 0..line {
        match text[start..].find('\n') {
            Some(i) => start += i + 1,
            None => return Ok(text.len()),
        }
    }
    let rest = &text[start..];
    let mut line_text = &rest[..rest.find('\n').unwrap_or(rest.len())];
    if let Some(s) = line_text.strip_suffix('\r') {
        line_text = s;
    }
    let mut units = 0u32;
    for (i, c) in line_text.char_indices() {
        if units == col {
            return Ok(start + i);
        }
        if units > col {
            return Err(format!("position {line}:{col} splits a surrogate pair"));
        }
        units += c.len_utf16() as u32;
    }
    if units > col {
        return Err(format!("position {line}:{col} splits a surrogate pair"));
    }
    Ok(start + line_text.len())
}

pub fn offset_to_lsp_position(text: &str, offset: usize) -> (u32, u32) {
    gen_iso::offset_to_utf16_position(text, offset)
}
