// gen_iso
