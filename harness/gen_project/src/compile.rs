//! Writing a rendered project to disk and compiling it: in-process through the public compiler
//! API (`CompilerState::new` + `get_artifact_path_and_content`), or through the real CLI binary.
use crate::model::Rendered;
use artifact_content::get_artifact_path_and_content;
use common_lang_types::CurrentWorkingDirectory;
use graphql_network_protocol::GraphQLAndJavascriptProfile;
use intern::string_key::Intern;
use isograph_compiler::CompilerState;
use std::collections::BTreeMap;
use std::path::{Path, PathBuf};
use std::process::Command;

pub type Profile = GraphQLAndJavascriptProfile;

pub fn write_project(dir: &Path, r: &Rendered) {
    for (rel, content) in &r.files {
        let p = dir.join(rel);
        if let Some(parent) = p.parent() {
            std::fs::create_dir_all(parent).expect("create project dir");
        }
        std::fs::write(&p, content).expect("write project file");
    }
}

pub fn cwd_of(dir: &Path) -> CurrentWorkingDirectory {
    dir.to_str().expect("utf8 path").intern().into()
}

/// Relative artifact path exactly as the compiler lays artifacts out on disk:
/// `[<Type>/<field>/]<file_name>`.
pub fn artifact_rel_path(a: &common_lang_types::ArtifactPathAndContent) -> String {
    match &a.artifact_path.type_and_field {
        Some(tf) => format!("{}/{}/{}", tf.parent_entity_name, tf.selectable_name, a.artifact_path.file_name),
        None => format!("{}", a.artifact_path.file_name),
    }
}

#[derive(Clone, Debug)]
pub enum Outcome {
    /// relative artifact path -> content
    Artifacts(BTreeMap<String, String>),
    /// rendered diagnostics (location-free text)
    Diagnostics(Vec<String>),
    /// the config could not be loaded / sources not initialised
    SetupError(String),
    Panic(String),
}

impl Outcome {
    pub fn is_ok(&self) -> bool {
        matches!(self, Outcome::Artifacts(_))
    }
}

/// Create a compiler state for the project in `dir` (config at `dir/isograph.config.json`).
pub fn new_state(dir: &Path) -> Result<CompilerState<Profile>, String> {
    let cwd = cwd_of(dir);
    let config = isograph_config::create_config(&dir.join("isograph.config.json"), cwd);
    CompilerState::new(config, cwd).map_err(|e| e.to_string())
}

/// Compile without touching the artifact directory (beyond what `create_config` creates).
pub fn compile_inproc(dir: &Path) -> Outcome {
    let dir: PathBuf = dir.to_path_buf();
    let r = vcore::catch_panic(|| {
        let state = match new_state(&dir) {
            Ok(s) => s,
            Err(e) => return Outcome::SetupError(e),
        };
        artifacts_of(&state)
    });
    match r {
        Ok(o) => o,
        Err(p) => Outcome::Panic(p),
    }
}

pub fn artifacts_of(state: &CompilerState<Profile>) -> Outcome {
    match get_artifact_path_and_content(&state.db) {
        Ok((artifacts, _stats)) => {
            let mut m = BTreeMap::new();
            for a in &artifacts {
                m.insert(artifact_rel_path(a), a.file_content.to_string());
            }
            Outcome::Artifacts(m)
        }
        Err(diags) => Outcome::Diagnostics(
            diags
                .iter()
                .map(|d| d.printable(common_lang_types::noop_print_location_fn()).to_string())
                .collect(),
        ),
    }
}

#[derive(Clone, Debug)]
pub struct CliRun {
    /// exit code, or None when killed by a signal
    pub code: Option<i32>,
    pub signal: Option<i32>,
    pub stdout: String,
    pub stderr: String,
    pub timed_out: bool,
}

/// Run the real CLI (`isograph_cli --config ./isograph.config.json`) with cwd = dir.
/// `timed_out` is set (and the process killed) after `timeout_s` seconds: that is an inconclusive
/// case for the caller, never a verdict.
pub fn run_cli(dir: &Path) -> CliRun {
    run_cli_with(dir, 120, &[])
}

pub fn run_cli_with(dir: &Path, timeout_s: u64, envs: &[(&str, &str)]) -> CliRun {
    use std::io::Read;
    use std::os::unix::process::ExitStatusExt;
    use std::process::Stdio;
    let mut cmd = Command::new(vcore::cli_path());
    cmd.current_dir(dir)
        .arg("--config")
        .arg("./isograph.config.json")
        .env("NO_COLOR", "1")
        .env_remove("RUST_LOG")
        .env("RUST_BACKTRACE", "0")
        .stdin(Stdio::null())
        .stdout(Stdio::piped())
        .stderr(Stdio::piped());
    for (k, v) in envs {
        cmd.env(k, v);
    }
    let mut child = cmd.spawn().expect("spawn isograph_cli");
    let mut so = child.stdout.take().unwrap();
    let mut se = child.stderr.take().unwrap();
    let t_out = std::thread::spawn(move || {
        let mut s = Vec::new();
        let _ = so.read_to_end(&mut s);
        s
    });
    let t_err = std::thread::spawn(move || {
        let mut s = Vec::new();
        let _ = se.read_to_end(&mut s);
        s
    });
    let start = std::time::Instant::now();
    let mut timed_out = false;
    let status = loop {
        match child.try_wait().expect("wait") {
            Some(st) => break st,
            None => {
                if start.elapsed().as_secs() >= timeout_s {
                    timed_out = true;
                    let _ = child.kill();
                    break child.wait().expect("wait after kill");
                }
                std::thread::sleep(std::time::Duration::from_millis(3));
            }
        }
    };
    let stdout = String::from_utf8_lossy(&t_out.join().unwrap_or_default()).to_string();
    let stderr = String::from_utf8_lossy(&t_err.join().unwrap_or_default()).to_string();
    CliRun { code: status.code(), signal: status.signal(), stdout, stderr, timed_out }
}

/// Snapshot of a directory tree: relative path -> bytes (regular files only).
pub fn snapshot(dir: &Path) -> BTreeMap<String, Vec<u8>> {
    fn walk(base: &Path, d: &Path, out: &mut BTreeMap<String, Vec<u8>>) {
        let Ok(rd) = std::fs::read_dir(d) else { return };
        for e in rd.flatten() {
            let p = e.path();
            if p.is_dir() {
                walk(base, &p, out);
            } else if let Ok(bytes) = std::fs::read(&p) {
                out.insert(p.strip_prefix(base).unwrap().to_string_lossy().to_string(), bytes);
            }
        }
    }
    let mut out = BTreeMap::new();
    walk(dir, dir, &mut out);
    out
}

/// A fresh, empty scratch directory for one case.
pub fn fresh_dir(tag: &str, n: u64) -> PathBuf {
    let d = vcore::scratch_base().join(format!("{tag}-{n}"));
    let _ = std::fs::remove_dir_all(&d);
    std::fs::create_dir_all(&d).expect("mkdir scratch");
    d
}
