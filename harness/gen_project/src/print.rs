//! Project model -> files (schema SDL, schema extension, sources, isograph.config.json).
use crate::model::*;
use std::collections::BTreeMap;

fn print_description(d: &Option<String>, indent: &str, out: &mut String) {
    if let Some(d) = d {
        // block strings: a literal `"""` inside would end the string; escape it as the spec says
        let body = d.replace("\"\"\"", "\\\"\"\"");
        out.push_str(&format!("{indent}\"\"\"\n{indent}{body}\n{indent}\"\"\"\n"));
    }
}

pub fn print_sdl_value(v: &Val) -> String {
    match v {
        Val::Var(n) => format!("${n}"),
        Val::Str(s) => format!("\"{s}\""),
        Val::Int(i) => i.to_string(),
        Val::Bool(b) => b.to_string(),
        Val::Null => "null".into(),
        Val::Obj(f) => format!("{{{}}}", f.iter().map(|(k, v)| format!("{k}: {}", print_sdl_value(v))).collect::<Vec<_>>().join(", ")),
    }
}

fn print_args(args: &[ArgDef]) -> String {
    if args.is_empty() {
        return String::new();
    }
    let inner: Vec<String> = args
        .iter()
        .map(|a| match &a.default {
            Some(d) => format!("{}: {} = {}", a.name, a.ty.print(), print_sdl_value(d)),
            None => format!("{}: {}", a.name, a.ty.print()),
        })
        .collect();
    format!("({})", inner.join(", "))
}

pub fn print_schema(s: &Schema) -> String {
    let mut out = String::new();
    for t in &s.types {
        print_description(&t.description, "", &mut out);
        match t.kind {
            TypeKind::Scalar => out.push_str(&format!("scalar {}\n\n", t.name)),
            TypeKind::Enum => {
                out.push_str(&format!("enum {} {{\n", t.name));
                for v in &t.values {
                    out.push_str(&format!("  {v}\n"));
                }
                out.push_str("}\n\n");
            }
            TypeKind::Union => out.push_str(&format!("union {} = {}\n\n", t.name, t.members.join(" | "))),
            TypeKind::Input | TypeKind::Object | TypeKind::Interface => {
                let kw = match t.kind {
                    TypeKind::Input => "input",
                    TypeKind::Interface => "interface",
                    _ => "type",
                };
                let imp = if t.implements.is_empty() { String::new() } else { format!(" implements {}", t.implements.join(" & ")) };
                out.push_str(&format!("{kw} {}{imp} {{\n", t.name));
                for f in &t.fields {
                    print_description(&f.description, "  ", &mut out);
                    out.push_str(&format!("  {}{}: {}\n", f.name, print_args(&f.args), f.ty.print()));
                }
                out.push_str("}\n\n");
            }
        }
    }
    out
}

pub fn print_extension(p: &Project) -> String {
    let mut out = String::new();
    let mut by_type: BTreeMap<&str, Vec<&Expose>> = BTreeMap::new();
    for e in &p.expose {
        by_type.entry(e.on.as_str()).or_default().push(e);
    }
    for (on, es) in by_type {
        out.push_str(&format!("extend type {on}\n"));
        for e in es {
            let mut parts = vec![format!("field: \"{}\"", e.path.join("."))];
            if let Some(a) = &e.alias {
                parts.push(format!("as: \"{a}\""));
            }
            if !e.field_map.is_empty() {
                let fm: Vec<String> = e.field_map.iter().map(|(f, t)| format!("{{ from: \"{f}\", to: \"{t}\" }}")).collect();
                parts.push(format!("fieldMap: [{}]", fm.join(", ")));
            }
            out.push_str(&format!("  @exposeField({})\n", parts.join(", ")));
        }
        out.push('\n');
    }
    out
}

fn print_sel(s: &Sel, indent: usize, out: &mut String) {
    let pad = "  ".repeat(indent);
    out.push_str(&pad);
    if let Some(a) = &s.alias {
        out.push_str(&format!("{a}: "));
    }
    out.push_str(&s.name);
    if !s.args.is_empty() {
        let inner: Vec<String> = s.args.iter().map(|(k, v)| format!("{k}: {}", v.print())).collect();
        out.push_str(&format!("({})", inner.join(", ")));
    }
    match &s.directive {
        SelDirective::None => {}
        SelDirective::Loadable { lazy_load_artifact } => {
            if *lazy_load_artifact {
                out.push_str(" @loadable(lazyLoadArtifact: true)");
            } else {
                out.push_str(" @loadable");
            }
        }
        SelDirective::Updatable => out.push_str(" @updatable"),
    }
    if let Some(children) = &s.children {
        out.push_str(" {\n");
        for ch in children {
            print_sel(ch, indent + 1, out);
        }
        out.push_str(&pad);
        out.push('}');
    }
    out.push('\n');
}

/// The iso literal text of a declaration (what stands between the backticks).
pub fn print_decl_literal(d: &Decl) -> String {
    let mut out = String::from("\n");
    let kw = if d.is_pointer() { "pointer" } else { "field" };
    out.push_str(&format!("  {kw} {}.{}", d.parent, d.name));
    if !d.vars.is_empty() {
        let inner: Vec<String> = d
            .vars
            .iter()
            .map(|v| match &v.default {
                Some(dv) => format!("${}: {} = {}", v.name, v.ty.print(), dv.print()),
                None => format!("${}: {}", v.name, v.ty.print()),
            })
            .collect();
        out.push_str(&format!("({})", inner.join(", ")));
    }
    match &d.kind {
        DeclKind::Pointer { target } => out.push_str(&format!(" to {}", target.print())),
        DeclKind::Field { component: true } => out.push_str(" @component"),
        DeclKind::Field { component: false } => {}
    }
    if let Some(desc) = &d.description {
        // iso descriptions are GraphQL strings; backticks cannot occur inside an iso literal
        let body = desc.replace('`', "'").replace("\"\"\"", "\\\"\"\"");
        out.push_str(&format!("\n  \"\"\"\n  {body}\n  \"\"\"\n "));
    }
    out.push_str(" {\n");
    for s in &d.selections {
        print_sel(s, 2, &mut out);
    }
    out.push_str("  }\n");
    out
}

pub fn print_entrypoint_literal(e: &Entrypoint) -> String {
    format!("entrypoint {}.{}{}", e.parent, e.name, if e.lazy { " @lazyLoad" } else { "" })
}

pub fn print_source_file(p: &Project, file: usize) -> String {
    let mut out = String::from("import { iso } from '@iso';\n// généré — 漢字 😀 (non-ASCII text before the literals)\n\n");
    for d in p.decls.iter().filter(|d| d.file == file) {
        let lit = print_decl_literal(d).replace('`', "'");
        out.push_str(&format!("export const {} = iso(`{}`)(function C(props) {{\n  return null;\n}});\n\n", d.export_name, lit));
    }
    for (i, e) in p.entrypoints.iter().enumerate().filter(|(_, e)| e.file == file) {
        out.push_str(&format!("export const entry_{i} = iso(`{}`);\n\n", print_entrypoint_literal(e)));
    }
    out
}

pub fn print_config(p: &Project) -> String {
    let c = &p.config;
    let mut options = serde_json::Map::new();
    if let Some(m) = &c.module {
        options.insert("module".into(), serde_json::json!(m));
    }
    if c.include_file_extensions {
        options.insert("include_file_extensions_in_import_statements".into(), serde_json::json!(true));
    }
    if c.no_babel_transform {
        options.insert("no_babel_transform".into(), serde_json::json!(true));
    }
    if let Some(h) = &c.header {
        options.insert("generated_file_header".into(), serde_json::json!(h));
    }
    if let Some((alg, extra, file)) = &c.persisted {
        let mut pd = serde_json::Map::new();
        pd.insert("algorithm".into(), serde_json::json!(alg));
        pd.insert("include_extra_info".into(), serde_json::json!(extra));
        if let Some(f) = file {
            pd.insert("file".into(), serde_json::json!(f));
        }
        options.insert("persisted_documents".into(), serde_json::Value::Object(pd));
    }
    if let Some(v) = &c.on_invalid_id_type {
        options.insert("on_invalid_id_type".into(), serde_json::json!(v));
    }
    let mut root = serde_json::Map::new();
    root.insert("project_root".into(), serde_json::json!("./src"));
    if c.separate_artifact_dir {
        root.insert("artifact_directory".into(), serde_json::json!("./generated"));
    }
    root.insert("schema".into(), serde_json::json!("./schema.graphql"));
    if !p.expose.is_empty() {
        root.insert("schema_extensions".into(), serde_json::json!(["./schema-ext.graphql"]));
    }
    root.insert("options".into(), serde_json::Value::Object(options));
    serde_json::to_string_pretty(&serde_json::Value::Object(root)).unwrap()
}

pub fn render(p: &Project) -> Rendered {
    let mut files = BTreeMap::new();
    files.insert("isograph.config.json".to_string(), print_config(p));
    files.insert("schema.graphql".to_string(), print_schema(&p.schema));
    if !p.expose.is_empty() {
        files.insert("schema-ext.graphql".to_string(), print_extension(p));
    }
    for (i, name) in p.file_names.iter().enumerate() {
        files.insert(format!("src/{name}"), print_source_file(p, i));
    }
    Rendered { files }
}

/// Relative path (from the project directory) of the artifact directory.
pub fn artifact_dir(p: &Project) -> &'static str {
    if p.config.separate_artifact_dir { "generated/__isograph" } else { "src/__isograph" }
}
