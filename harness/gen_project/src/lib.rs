//! G-PROJECT: model-first generator of Isograph projects (schema + schema extension + iso
//! program + config), plus helpers to write a project to disk, compile it in-process or through
//! the real CLI, and derive single-fault mutants / metamorphic variants.
//!
//! Usage: `tape_strategy()` yields `Vec<u16>` tapes; `build_project(tape, &GenConfig)` is a pure
//! function tape -> `Project` (the model the oracles consult); `render(&project)` gives the files.
pub mod build;
pub mod cases;
pub mod compile;
pub mod model;
pub mod mutate;
pub mod print;
pub mod tape;
pub mod variants;

pub use build::{build_project, GenConfig};
pub use model::*;
pub use print::{artifact_dir, render};

use proptest::prelude::*;

/// Strategy for choice tapes. Shrinks towards shorter tapes with smaller cells = simpler projects.
pub fn tape_strategy(len: usize) -> impl Strategy<Value = Vec<u16>> {
    prop::collection::vec(any::<u16>(), 0..=len)
}
