// gen_project
