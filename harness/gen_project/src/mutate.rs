//! Single-fault mutants (one C16 rule violated at a model-decided location) and metamorphic
//! variants (C15) of a valid project.
use crate::model::*;
use crate::tape::Tape;
use serde::{Deserialize, Serialize};

#[derive(Clone, Copy, Debug, PartialEq, Eq, Hash, Serialize, Deserialize)]
pub enum Rule {
    UndefinedField,
    ObjectWithoutSelectionSet,
    ScalarWithSelectionSet,
    UndefinedArgument,
    MissingRequiredArgument,
    UndeclaredVariable,
    UnusedVariable,
    IncompatibleLiteral,
    IncompatibleVariable,
    DuplicateResponseName,
}

pub const ALL_RULES: &[Rule] = &[
    Rule::UndefinedField,
    Rule::ObjectWithoutSelectionSet,
    Rule::ScalarWithSelectionSet,
    Rule::UndefinedArgument,
    Rule::MissingRequiredArgument,
    Rule::UndeclaredVariable,
    Rule::UnusedVariable,
    Rule::IncompatibleLiteral,
    Rule::IncompatibleVariable,
    Rule::DuplicateResponseName,
];

#[derive(Clone, Debug, Serialize, Deserialize)]
pub struct Mutation {
    pub rule: Rule,
    pub decl: usize,
    /// indices into nested selection sets
    pub path: Vec<usize>,
    pub note: String,
}

impl Mutation {
    pub fn depth(&self) -> usize {
        self.path.len()
    }
}

/// All selection paths of a declaration, with the parent type of each selection.
fn paths(p: &Project, decl: usize) -> Vec<(Vec<usize>, String)> {
    fn walk(p: &Project, sels: &[Sel], ty: &str, prefix: &mut Vec<usize>, out: &mut Vec<(Vec<usize>, String)>) {
        for (i, s) in sels.iter().enumerate() {
            prefix.push(i);
            out.push((prefix.clone(), ty.to_string()));
            if let Some(ch) = &s.children {
                let child_ty = match &s.target {
                    Target::ServerObject(t) | Target::AsType(t) => Some(t.clone()),
                    Target::ClientPointer(j) => match &p.decls[*j].kind {
                        DeclKind::Pointer { target } => Some(target.inner_name().to_string()),
                        _ => None,
                    },
                    _ => None,
                };
                if let Some(t) = child_ty {
                    walk(p, ch, &t, prefix, out);
                }
            }
            prefix.pop();
        }
    }
    let mut out = vec![];
    walk(p, &p.decls[decl].selections, &p.decls[decl].parent, &mut vec![], &mut out);
    out
}

fn sel_at<'a>(sels: &'a mut Vec<Sel>, path: &[usize]) -> &'a mut Sel {
    let (first, rest) = path.split_first().expect("non-empty path");
    let s = &mut sels[*first];
    if rest.is_empty() {
        s
    } else {
        sel_at(s.children.as_mut().expect("children"), rest)
    }
}

fn set_at<'a>(sels: &'a mut Vec<Sel>, path: &[usize]) -> &'a mut Vec<Sel> {
    if path.len() == 1 {
        sels
    } else {
        let (first, rest) = path.split_first().unwrap();
        set_at(sels[*first].children.as_mut().expect("children"), rest)
    }
}

fn arg_defs_of(p: &Project, parent_ty: &str, s: &Sel) -> Vec<ArgDef> {
    match &s.target {
        Target::ServerScalar | Target::ServerObject(_) => {
            p.schema.fields_of(parent_ty).iter().find(|f| f.name == s.name).map(|f| f.args.clone()).unwrap_or_default()
        }
        Target::ClientField(j) | Target::ClientPointer(j) => {
            p.decls[*j].vars.iter().map(|v| ArgDef { name: v.name.clone(), ty: v.ty.clone(), default: v.default.clone() }).collect()
        }
        _ => vec![],
    }
}

fn wrong_literal_for(ty: &TypeRef) -> Val {
    if ty.is_list() {
        return Val::Int(1);
    }
    match ty.inner_name() {
        "Int" | "Float" => Val::Str("x".into()),
        "String" => Val::Int(1),
        "Boolean" => Val::Int(1),
        "ID" => Val::Bool(true),
        _ => Val::Str("x".into()),
    }
}

/// Apply one rule at a tape-chosen eligible location. None when the project has no eligible
/// location for the rule.
pub fn mutate(p: &Project, rule: Rule, t: &mut Tape) -> Option<(Project, Mutation)> {
    if p.decls.is_empty() {
        return None;
    }
    // candidate (decl, path, parent type) triples
    let mut cands: Vec<(usize, Vec<usize>, String)> = vec![];
    for d in 0..p.decls.len() {
        for (path, ty) in paths(p, d) {
            cands.push((d, path, ty));
        }
    }
    let mut q = p.clone();
    let get = |p: &Project, d: usize, path: &[usize]| -> Sel {
        let mut sels = p.decls[d].selections.clone();
        sel_at(&mut sels, path).clone()
    };
    match rule {
        Rule::UnusedVariable => {
            let d = t.choose(p.decls.len());
            q.decls[d].vars.push(VarDef { name: "unusedVariable".into(), ty: TypeRef::named("Int", false), default: None });
            Some((q, Mutation { rule, decl: d, path: vec![], note: "declared $unusedVariable".into() }))
        }
        Rule::UndefinedField => {
            let el: Vec<_> = cands.iter().filter(|(d, path, _)| matches!(get(p, *d, path).target, Target::ServerScalar | Target::ServerObject(_))).collect();
            if el.is_empty() {
                return None;
            }
            let (d, path, _) = el[t.choose(el.len())].clone();
            let s = sel_at(&mut q.decls[d].selections, &path);
            s.name = "nonexistentFieldZz".into();
            Some((q, Mutation { rule, decl: d, path, note: "selection renamed to nonexistentFieldZz".into() }))
        }
        Rule::ObjectWithoutSelectionSet => {
            let el: Vec<_> = cands.iter().filter(|(d, path, _)| matches!(get(p, *d, path).target, Target::ServerObject(_))).collect();
            if el.is_empty() {
                return None;
            }
            let (d, path, _) = el[t.choose(el.len())].clone();
            let s = sel_at(&mut q.decls[d].selections, &path);
            s.children = None;
            let note = format!("removed the selection set of object field {}", s.name);
            Some((q, Mutation { rule, decl: d, path, note }))
        }
        Rule::ScalarWithSelectionSet => {
            let el: Vec<_> = cands
                .iter()
                .filter(|(d, path, _)| {
                    let s = get(p, *d, path);
                    matches!(s.target, Target::ServerScalar) && s.directive == SelDirective::None
                })
                .collect();
            if el.is_empty() {
                return None;
            }
            let (d, path, _) = el[t.choose(el.len())].clone();
            let s = sel_at(&mut q.decls[d].selections, &path);
            s.children = Some(vec![Sel { alias: None, name: "__typename".into(), args: vec![], directive: SelDirective::None, children: None, target: Target::Typename }]);
            let note = format!("gave scalar field {} a selection set", s.name);
            Some((q, Mutation { rule, decl: d, path, note }))
        }
        Rule::UndefinedArgument => {
            let el: Vec<_> = cands
                .iter()
                .filter(|(d, path, _)| matches!(get(p, *d, path).target, Target::ServerScalar | Target::ServerObject(_) | Target::ClientField(_)))
                .collect();
            if el.is_empty() {
                return None;
            }
            let (d, path, _) = el[t.choose(el.len())].clone();
            let s = sel_at(&mut q.decls[d].selections, &path);
            s.args.push(("bogusArgument".into(), Val::Int(1)));
            let note = format!("passed undefined argument bogusArgument to {}", s.name);
            Some((q, Mutation { rule, decl: d, path, note }))
        }
        Rule::MissingRequiredArgument => {
            let mut el = vec![];
            for (d, path, ty) in &cands {
                let s = get(p, *d, path);
                if matches!(s.directive, SelDirective::Loadable { .. }) {
                    continue;
                }
                for a in arg_defs_of(p, ty, &s) {
                    if a.ty.is_non_null() && a.default.is_none() && s.args.iter().any(|(n, _)| *n == a.name) {
                        el.push((*d, path.clone(), a.name.clone()));
                    }
                }
            }
            if el.is_empty() {
                return None;
            }
            let (d, path, arg) = el[t.choose(el.len())].clone();
            // the removed value may have been the only use of a variable: drop variables that
            // become unused so that exactly one rule is violated
            let s = sel_at(&mut q.decls[d].selections, &path);
            s.args.retain(|(n, _)| *n != arg);
            let kind = if s.children.is_some() { "object" } else { "scalar" };
            let note = format!("omitted required argument {arg} of {kind} selection {}", s.name);
            prune_unused_vars(&mut q, d);
            Some((q, Mutation { rule, decl: d, path, note }))
        }
        Rule::UndeclaredVariable => {
            let el: Vec<_> = cands.iter().filter(|(d, path, _)| !get(p, *d, path).args.is_empty()).collect();
            if el.is_empty() {
                return None;
            }
            let (d, path, _) = el[t.choose(el.len())].clone();
            let s = sel_at(&mut q.decls[d].selections, &path);
            let k = t.choose(s.args.len());
            s.args[k].1 = Val::Var("undeclaredVariable".into());
            let note = format!("argument {} of {} now uses $undeclaredVariable", s.args[k].0, s.name);
            prune_unused_vars(&mut q, d);
            Some((q, Mutation { rule, decl: d, path, note }))
        }
        Rule::IncompatibleLiteral => {
            let mut el = vec![];
            for (d, path, ty) in &cands {
                let s = get(p, *d, path);
                let defs = arg_defs_of(p, ty, &s);
                for (k, (n, _)) in s.args.iter().enumerate() {
                    if let Some(def) = defs.iter().find(|a| a.name == *n) {
                        // custom scalars accept no literal at all in this compiler: skip them, the
                        // fault would not be "incompatible" by a rule the docs state
                        if matches!(p.schema.kind_of(def.ty.inner_name()), TypeKind::Scalar) && !BUILTIN_SCALARS.contains(&def.ty.inner_name()) {
                            continue;
                        }
                        el.push((*d, path.clone(), k, def.ty.clone()));
                    }
                }
            }
            if el.is_empty() {
                return None;
            }
            let (d, path, k, ty) = el[t.choose(el.len())].clone();
            let s = sel_at(&mut q.decls[d].selections, &path);
            s.args[k].1 = wrong_literal_for(&ty);
            let note = format!("argument {} of {} (type {}) given literal {}", s.args[k].0, s.name, ty.print(), s.args[k].1.print());
            prune_unused_vars(&mut q, d);
            Some((q, Mutation { rule, decl: d, path, note }))
        }
        Rule::IncompatibleVariable => {
            // change the declared type of a variable that is used directly as an argument value
            let mut el = vec![];
            for (d, path, ty) in &cands {
                let s = get(p, *d, path);
                let defs = arg_defs_of(p, ty, &s);
                for (n, v) in &s.args {
                    if let (Val::Var(var), Some(def)) = (v, defs.iter().find(|a| a.name == *n)) {
                        el.push((*d, path.clone(), var.clone(), def.ty.clone()));
                    }
                }
            }
            if el.is_empty() {
                return None;
            }
            let (d, path, var, ty) = el[t.choose(el.len())].clone();
            let wrong = if ty.is_list() {
                TypeRef::named("Int", true)
            } else {
                match ty.inner_name() {
                    "Boolean" => TypeRef::named("Int", true),
                    _ => TypeRef::named("Boolean", true),
                }
            };
            // every other direct use of this variable must stay well-typed: only accept when this
            // is the variable's single use
            let mut uses = vec![];
            for (_, path2, _) in cands.iter().filter(|(d2, _, _)| *d2 == d) {
                let s2 = get(p, d, path2);
                for (_, v) in &s2.args {
                    v.vars(&mut uses);
                }
            }
            if uses.iter().filter(|u| **u == var).count() != 1 {
                return None;
            }
            let vd = q.decls[d].vars.iter_mut().find(|v| v.name == var)?;
            vd.ty = wrong.clone();
            vd.default = None;
            Some((q, Mutation { rule, decl: d, path, note: format!("variable ${var} redeclared as {} but used where {} is expected", wrong.print(), ty.print()) }))
        }
        Rule::DuplicateResponseName => {
            // give a selection the response name of a sibling
            let el: Vec<_> = cands
                .iter()
                .filter(|(d, path, _)| {
                    let mut sels = p.decls[*d].selections.clone();
                    set_at(&mut sels, path).len() >= 2
                })
                .collect();
            if el.is_empty() {
                // duplicate a selection instead
                let (d, path, _) = cands[t.choose(cands.len())].clone();
                let set = set_at(&mut q.decls[d].selections, &path);
                let dup = set[*path.last().unwrap()].clone();
                set.push(dup);
                return Some((q, Mutation { rule, decl: d, path, note: "selection repeated verbatim".into() }));
            }
            let (d, path, _) = el[t.choose(el.len())].clone();
            let set = set_at(&mut q.decls[d].selections, &path);
            let i = *path.last().unwrap();
            let j = (i + 1) % set.len();
            let name = set[j].name_or_alias().to_string();
            set[i].alias = Some(name.clone());
            if set[i].name == name {
                set[i].alias = None;
            }
            Some((q, Mutation { rule, decl: d, path, note: format!("two selections now share the response name {name}") }))
        }
    }
}

/// Remove variable declarations no selection uses any more (after a mutation removed a use), so
/// that a mutant violates exactly one rule.
fn prune_unused_vars(p: &mut Project, d: usize) {
    fn collect(sels: &[Sel], out: &mut Vec<String>) {
        for s in sels {
            for (_, v) in &s.args {
                v.vars(out);
            }
            if let Some(ch) = &s.children {
                collect(ch, out);
            }
        }
    }
    let mut used = vec![];
    collect(&p.decls[d].selections, &mut used);
    p.decls[d].vars.retain(|v| used.contains(&v.name));
}
