//! A choice tape: the only source of randomness of the project builder. proptest generates the
//! `Vec<u16>`; every decision maps a tape cell monotonically onto its range (`v*n >> 16`), so a
//! smaller cell is a simpler choice and an exhausted tape always yields choice 0. Shrinking the
//! vector therefore shrinks the project, and the project is a pure function of the tape.

#[derive(Clone, Debug)]
pub struct Tape {
    data: Vec<u16>,
    pos: usize,
}

impl Tape {
    pub fn new(data: Vec<u16>) -> Tape {
        Tape { data, pos: 0 }
    }

    fn next(&mut self) -> u16 {
        let v = self.data.get(self.pos).copied().unwrap_or(0);
        self.pos += 1;
        v
    }

    /// A value in `0..n` (0 when n == 0).
    pub fn choose(&mut self, n: usize) -> usize {
        if n <= 1 {
            // still consume a cell so that structure does not depend on n
            let _ = self.next();
            return 0;
        }
        ((self.next() as usize) * n) >> 16
    }

    /// A value in `lo..=hi`.
    pub fn range(&mut self, lo: usize, hi: usize) -> usize {
        lo + self.choose(hi - lo + 1)
    }

    /// true with probability num/den; false is the "simple" outcome.
    pub fn chance(&mut self, num: usize, den: usize) -> bool {
        // high cells -> true, so that shrinking towards 0 turns features off
        self.choose(den) >= den - num
    }

    pub fn pick<'a, T>(&mut self, items: &'a [T]) -> &'a T {
        &items[self.choose(items.len())]
    }

    pub fn used(&self) -> usize {
        self.pos
    }

    /// An independent sub-tape (so that adding choices in one part of the builder does not shift
    /// the choices of another part): cells are taken from a window derived from `salt`.
    pub fn fork(&self, salt: usize) -> Tape {
        if self.data.is_empty() {
            return Tape::new(vec![]);
        }
        let n = self.data.len();
        let start = (salt.wrapping_mul(7919)) % n;
        let mut d = Vec::with_capacity(n);
        d.extend_from_slice(&self.data[start..]);
        d.extend_from_slice(&self.data[..start]);
        Tape::new(d)
    }
}
