//! Model-first project builder: tape -> Project. Everything emitted here is meant to be ACCEPTED
//! by the compiler (the "generated language subset" of C16); faults are introduced separately by
//! `mutate.rs`. The acceptance rate is measured by the checks and reported in evidence.
use crate::model::*;
use crate::tape::Tape;

#[derive(Clone, Debug)]
pub struct GenConfig {
    /// client-field selections with argument passing, pointers, aliases
    pub client_graph: bool,
    /// abstract types (interfaces / unions / asX / __link), @loadable, @updatable, lazy entrypoints
    pub advanced: bool,
    /// descriptions and strings with comment terminators, quotes, line terminators (C13)
    pub hostile_text: bool,
    /// negative integer literals
    pub negative_ints: bool,
    /// integer literals outside the 32-bit range
    pub big_ints: bool,
    /// string literals with quotes / apostrophes / backslashes / non-ASCII
    pub odd_strings: bool,
    /// variables nested inside object literals
    pub vars_in_objects: bool,
    /// vary isograph.config.json options
    pub config_space: bool,
    /// `@exposeField` extensions + Mutation type
    pub expose: bool,
    pub max_decls: usize,
    /// also emit shapes that are known to crash the compiler at the pinned commit (pointers and
    /// @loadable on types that cannot be refetched, @loadable with omitted required arguments,
    /// list-typed variables): only C08 wants them
    pub risky: bool,
    /// list-typed arguments fed by list-typed variables (rejected by the compiler: known finding)
    pub list_variables: bool,
    /// `__refetch` selections on object types that have an `id` (off in every preset, so the
    /// tape -> project mapping of the presets is unchanged; artcheck turns it on)
    pub refetch_fields: bool,
    /// extra weight (number of additional candidate entries) of refetchable selections — client
    /// fields and pointers, exposed fields, `__refetch` — in every selection set; 0 in every
    /// preset (C25 raises it so that refetch references are reused at several depths)
    pub ref_weight: usize,
    /// one declaration in `pointer_den` is a client pointer (6 in every preset; `dense_refs` lowers it)
    pub pointer_den: usize,
}

impl GenConfig {
    pub fn core() -> GenConfig {
        GenConfig {
            client_graph: false,
            advanced: false,
            hostile_text: false,
            negative_ints: false,
            big_ints: false,
            odd_strings: false,
            vars_in_objects: false,
            config_space: false,
            expose: false,
            max_decls: 5,
            risky: false,
            list_variables: true,
            refetch_fields: false,
            ref_weight: 0,
            pointer_den: 6,
        }
    }
    pub fn client_graph() -> GenConfig {
        GenConfig { client_graph: true, ..GenConfig::core() }
    }
    pub fn advanced() -> GenConfig {
        GenConfig { client_graph: true, advanced: true, expose: true, max_decls: 7, ..GenConfig::core() }
    }
    pub fn everything() -> GenConfig {
        GenConfig {
            client_graph: true,
            advanced: true,
            hostile_text: true,
            negative_ints: true,
            big_ints: false,
            odd_strings: true,
            vars_in_objects: true,
            config_space: true,
            expose: true,
            max_decls: 7,
            risky: false,
            list_variables: true,
            refetch_fields: false,
            ref_weight: 0,
            pointer_den: 6,
        }
    }
    /// Many refetchable selections: client pointers are every second declaration, client
    /// selections/`__refetch`/exposed fields dominate selection sets (readers that use several
    /// refetch queries, the same pointer selected several times with different arguments).
    pub fn dense_refs(mut self) -> GenConfig {
        self.ref_weight = 3;
        self.refetch_fields = true;
        self.pointer_den = 3;
        self.max_decls = 12;
        self
    }
    pub fn risky(mut self) -> GenConfig {
        self.risky = true;
        self.list_variables = true;
        self
    }
}

const OBJ_NAMES: &[&str] = &["Pet", "PetStats", "Foo", "FooBar", "Item", "Owner"];
const SCALAR_FIELDS: &[(&str, &str)] = &[
    ("name", "String"),
    ("nick", "String"),
    ("age", "Int"),
    ("flag", "Boolean"),
    ("score", "Float"),
    ("tag", "ID"),
    ("field", "String"),
    ("fieldX", "Int"),
    ("url", "Url"),
    ("color", "Color"),
];
const LINK_FIELDS: &[&str] = &["friend", "owner", "items", "best", "child"];
const CLIENT_FIELD_NAMES: &[&str] = &["Avatar", "AvatarLarge", "Card", "CardList", "Row", "Header", "fieldY", "Detail", "entrypointer"];
const POINTER_NAMES: &[&str] = &["pointerX", "bestPet", "firstItem"];
const FILE_NAMES: &[&str] = &["a.ts", "comp/b.tsx", "comp/deep/c.js", "ab.jsx"];

const PLAIN_DESCRIPTIONS: &[&str] = &["A plain description", "It is just a number.", "Multi\nline description"];
const HOSTILE_DESCRIPTIONS: &[&str] = &[
    "ends a comment */ here",
    "has `backticks` and 'apostrophes' and \\\"quotes\\\"",
    "line separator \u{2028} inside",
    "/* nested */ // comment",
    "back\\\\slash",
    "é漢😀",
];
const PLAIN_STRINGS: &[&str] = &["hello", "a b", "a_b", "x"];
const ODD_STRINGS: &[&str] = &["it's", "é", "a\\\"b", "😀", "back\\\\slash", "a-b", "", "tab\\there", "${x}", "*/", "two  spaces", " pad  "];

struct Ctx<'a> {
    t: &'a mut Tape,
    cfg: &'a GenConfig,
}

fn lower_first(s: &str) -> String {
    let mut c = s.chars();
    match c.next() {
        Some(f) => f.to_lowercase().collect::<String>() + c.as_str(),
        None => String::new(),
    }
}

pub fn build_project(tape: Vec<u16>, cfg: &GenConfig) -> Project {
    let mut tape = Tape::new(tape);
    let mut c = Ctx { t: &mut tape, cfg };
    let schema = build_schema(&mut c);
    let n_files = c.t.range(1, 3);
    let mut file_names: Vec<String> = vec![];
    for i in 0..n_files {
        // distinct names by construction
        let base = FILE_NAMES[(i + c.t.choose(2)) % FILE_NAMES.len()];
        let name = if file_names.iter().any(|f| f == base) { format!("f{i}_{}", base.replace('/', "_")) } else { base.to_string() };
        file_names.push(name);
    }
    let mut project = Project { schema, expose: vec![], decls: vec![], entrypoints: vec![], file_names, config: ConfigModel::default() };
    if cfg.expose {
        build_expose(&mut c, &mut project);
    }
    build_decls(&mut c, &mut project);
    build_entrypoints(&mut c, &mut project);
    if cfg.config_space {
        project.config = build_config(&mut c);
    }
    project
}

fn description(c: &mut Ctx) -> Option<String> {
    if !c.t.chance(1, 4) {
        return None;
    }
    if c.cfg.hostile_text && c.t.chance(1, 2) {
        Some(c.t.pick(HOSTILE_DESCRIPTIONS).to_string())
    } else {
        Some(c.t.pick(PLAIN_DESCRIPTIONS).to_string())
    }
}

fn wrap_output(c: &mut Ctx, name: &str) -> TypeRef {
    match c.t.choose(8) {
        0 | 1 | 2 => TypeRef::named(name, false),
        3 | 4 => TypeRef::named(name, true),
        5 => TypeRef::list(TypeRef::named(name, true), true),
        6 => TypeRef::list(TypeRef::named(name, false), false),
        _ => TypeRef::list(TypeRef::list(TypeRef::named(name, true), false), true),
    }
}

fn arg_pool(schema: &Schema, cfg: &GenConfig) -> Vec<ArgDef> {
    let mut v = vec![
        ArgDef { name: "first".into(), ty: TypeRef::named("Int", false), default: None },
        ArgDef { name: "skip".into(), ty: TypeRef::named("Int", true), default: None },
        ArgDef { name: "text".into(), ty: TypeRef::named("String", false), default: None },
        ArgDef { name: "on".into(), ty: TypeRef::named("Boolean", true), default: None },
        ArgDef { name: "id".into(), ty: TypeRef::named("ID", true), default: None },
        ArgDef { name: "limit".into(), ty: TypeRef::named("Int", false), default: Some(Val::Int(10)) },
        ArgDef { name: "ratio".into(), ty: TypeRef::named("Float", false), default: None },
        ArgDef { name: "greeting".into(), ty: TypeRef::named("String", true), default: Some(Val::Str("hi".into())) },
    ];
    if cfg.list_variables {
        v.push(ArgDef { name: "ids".into(), ty: TypeRef::list(TypeRef::named("ID", true), false), default: None });
        v.push(ArgDef { name: "names".into(), ty: TypeRef::list(TypeRef::named("String", false), true), default: None });
        v.push(ArgDef { name: "tags".into(), ty: TypeRef::list(TypeRef::named("String", true), true), default: None });
    }
    if schema.get("Filter").is_some() {
        v.push(ArgDef { name: "filter".into(), ty: TypeRef::named("Filter", false), default: None });
        v.push(ArgDef { name: "where".into(), ty: TypeRef::named("Filter", true), default: None });
    }
    if schema.get("Color").is_some() {
        v.push(ArgDef { name: "color".into(), ty: TypeRef::named("Color", false), default: None });
        v.push(ArgDef { name: "tint".into(), ty: TypeRef::named("Color", true), default: None });
    }
    if schema.get("Url").is_some() {
        v.push(ArgDef { name: "link".into(), ty: TypeRef::named("Url", false), default: None });
    }
    v
}

fn gen_args(c: &mut Ctx, schema: &Schema, max: usize) -> Vec<ArgDef> {
    let pool = arg_pool(schema, c.cfg);
    let n = if c.t.chance(1, 3) { c.t.range(1, max) } else { 0 };
    let mut out: Vec<ArgDef> = vec![];
    for _ in 0..n {
        let a = c.t.pick(&pool).clone();
        if !out.iter().any(|x| x.name == a.name) {
            out.push(a);
        }
    }
    out
}

fn build_schema(c: &mut Ctx) -> Schema {
    let mut s = Schema::default();
    let has_node = c.t.chance(2, 3);
    let has_url = c.t.chance(1, 3);
    let has_color = c.t.chance(1, 3);
    let has_inputs = c.t.chance(1, 2);
    if has_url {
        s.types.push(TypeDef::new(TypeKind::Scalar, "Url"));
    }
    if has_color {
        let mut e = TypeDef::new(TypeKind::Enum, "Color");
        e.values = vec!["RED".into(), "GREEN".into(), "BLUE".into()];
        s.types.push(e);
    }
    if has_inputs {
        let mut inner = TypeDef::new(TypeKind::Input, "Inner");
        inner.fields = vec![
            FieldDef { name: "flag".into(), args: vec![], ty: TypeRef::named("Boolean", false), description: None },
            FieldDef { name: "count".into(), args: vec![], ty: TypeRef::named("Int", true), description: None },
        ];
        let mut f = TypeDef::new(TypeKind::Input, "Filter");
        f.fields = vec![
            FieldDef { name: "text".into(), args: vec![], ty: TypeRef::named("String", false), description: None },
            FieldDef { name: "limit".into(), args: vec![], ty: TypeRef::named("Int", true), description: None },
            FieldDef { name: "nested".into(), args: vec![], ty: TypeRef::named("Inner", false), description: None },
            FieldDef { name: "ids".into(), args: vec![], ty: TypeRef::list(TypeRef::named("ID", true), false), description: None },
        ];
        s.types.push(inner);
        s.types.push(f);
    }
    if has_node {
        let mut n = TypeDef::new(TypeKind::Interface, "Node");
        n.fields = vec![FieldDef { name: "id".into(), args: vec![], ty: TypeRef::named("ID", true), description: None }];
        s.types.push(n);
    }
    // object types
    let n_obj = c.t.range(1, 4);
    let start = c.t.choose(OBJ_NAMES.len());
    let obj_names: Vec<String> = (0..n_obj).map(|i| OBJ_NAMES[(start + i) % OBJ_NAMES.len()].to_string()).collect();
    let has_named = c.cfg.advanced && c.t.chance(1, 2);
    let has_union = c.cfg.advanced && n_obj >= 2 && c.t.chance(1, 2);
    if has_named {
        let mut n = TypeDef::new(TypeKind::Interface, "Named");
        n.fields = vec![FieldDef { name: "name".into(), args: vec![], ty: TypeRef::named("String", false), description: None }];
        n.description = description(c);
        s.types.push(n);
    }
    let mut composite_targets: Vec<String> = obj_names.clone();
    if has_named {
        composite_targets.push("Named".into());
    }
    if has_union {
        composite_targets.push("Thing".into());
    }
    let mut any_named_impl = false;
    for (oi, name) in obj_names.iter().enumerate() {
        let mut o = TypeDef::new(TypeKind::Object, name);
        o.description = description(c);
        if has_node && c.t.chance(3, 4) {
            o.implements.push("Node".into());
            o.fields.push(FieldDef { name: "id".into(), args: vec![], ty: TypeRef::named("ID", true), description: description(c) });
        }
        let implements_named = has_named && (c.t.chance(1, 2) || (oi == n_obj - 1 && !any_named_impl));
        if implements_named {
            any_named_impl = true;
            o.implements.push("Named".into());
            o.fields.push(FieldDef { name: "name".into(), args: vec![], ty: TypeRef::named("String", false), description: None });
        }
        let k = c.t.range(1, 4);
        for _ in 0..k {
            let (fname, base) = *c.t.pick(SCALAR_FIELDS);
            if o.fields.iter().any(|f| f.name == fname) {
                continue;
            }
            let base = match base {
                "Url" if !has_url => "String",
                "Color" if !has_color => "String",
                b => b,
            };
            let ty = if c.t.chance(1, 6) {
                TypeRef::list(TypeRef::named(base, c.t.chance(1, 2)), c.t.chance(1, 2))
            } else {
                TypeRef::named(base, c.t.chance(1, 2))
            };
            let args = gen_args(c, &s, 2);
            o.fields.push(FieldDef { name: fname.into(), args, ty, description: description(c) });
        }
        let links = c.t.range(0, 2);
        for _ in 0..links {
            let lname = *c.t.pick(LINK_FIELDS);
            if o.fields.iter().any(|f| f.name == lname) {
                continue;
            }
            let target = c.t.pick(&composite_targets).clone();
            let ty = wrap_output(c, &target);
            let args = gen_args(c, &s, 2);
            o.fields.push(FieldDef { name: lname.into(), args, ty, description: description(c) });
        }
        s.types.push(o);
    }
    if has_union {
        let mut u = TypeDef::new(TypeKind::Union, "Thing");
        let k = c.t.range(2, n_obj.min(3));
        u.members = obj_names.iter().take(k).cloned().collect();
        s.types.push(u);
    }
    // Query
    let mut q = TypeDef::new(TypeKind::Object, "Query");
    for name in &obj_names {
        let lf = lower_first(name);
        let mut args = vec![];
        if c.t.chance(1, 2) {
            args.push(ArgDef { name: "id".into(), ty: TypeRef::named("ID", true), default: None });
        }
        q.fields.push(FieldDef { name: lf.clone(), args, ty: TypeRef::named(name, false), description: description(c) });
        if c.t.chance(1, 2) {
            let args = gen_args(c, &s, 2);
            q.fields.push(FieldDef {
                name: format!("{lf}s"),
                args,
                ty: TypeRef::list(TypeRef::named(name, true), true),
                description: None,
            });
        }
    }
    if has_node {
        q.fields.push(FieldDef {
            name: "node".into(),
            args: vec![ArgDef { name: "id".into(), ty: TypeRef::named("ID", true), default: None }],
            ty: TypeRef::named("Node", false),
            description: None,
        });
    }
    if has_named {
        q.fields.push(FieldDef { name: "named".into(), args: vec![], ty: wrap_output(c, "Named"), description: None });
    }
    if has_union {
        let args = gen_args(c, &s, 1);
        q.fields.push(FieldDef { name: "thing".into(), args, ty: wrap_output(c, "Thing"), description: None });
    }
    q.fields.push(FieldDef { name: "version".into(), args: vec![], ty: TypeRef::named("String", false), description: None });
    if c.t.chance(1, 2) {
        let args = gen_args(c, &s, 3);
        q.fields.push(FieldDef { name: "count".into(), args, ty: TypeRef::named("Int", true), description: None });
    }
    s.types.push(q);
    // Mutation
    if c.cfg.expose && c.t.chance(1, 2) {
        s.has_mutation = true;
        let target = obj_names[0].clone();
        let mut resp = TypeDef::new(TypeKind::Object, "SetResponse");
        resp.fields.push(FieldDef { name: lower_first(&target), args: vec![], ty: TypeRef::named(&target, true), description: None });
        s.types.push(resp);
        let mut m = TypeDef::new(TypeKind::Object, "Mutation");
        m.fields.push(FieldDef {
            name: "set_thing".into(),
            args: vec![
                ArgDef { name: "id".into(), ty: TypeRef::named("ID", true), default: None },
                ArgDef { name: "value".into(), ty: TypeRef::named("String", false), default: None },
            ],
            ty: TypeRef::named("SetResponse", true),
            description: None,
        });
        s.types.push(m);
    }
    s
}

fn build_expose(c: &mut Ctx, p: &mut Project) {
    if !p.schema.has_mutation {
        return;
    }
    let resp = p.schema.get("SetResponse").unwrap();
    let inner = resp.fields[0].clone();
    let target = inner.ty.inner_name().to_string();
    let target_has_id = p.schema.get(&target).map(|t| t.has_id()).unwrap_or(false);
    if !target_has_id {
        return;
    }
    let alias = if c.t.chance(1, 2) { Some("set_it".to_string()) } else { None };
    p.expose.push(Expose {
        on: "Mutation".into(),
        path: vec!["set_thing".into(), inner.name.clone()],
        alias,
        field_map: vec![("id".into(), "id".into())],
        attached_to: target,
    });
}

struct DeclCtx {
    vars: Vec<VarDef>,
}

fn base_var_name(arg_name: &str) -> String {
    arg_name.to_string()
}

fn type_compatible(var: &TypeRef, target: &TypeRef) -> bool {
    // the GraphQL rule: a non-null type may flow into the nullable position of the same type, at
    // every list level (covariant item nullability)
    match (var, target) {
        (TypeRef::Named { name: a, non_null: an }, TypeRef::Named { name: b, non_null: bn }) => a == b && (*an || !*bn),
        (TypeRef::List { inner: a, non_null: an }, TypeRef::List { inner: b, non_null: bn }) => (*an || !*bn) && type_compatible(a, b),
        _ => false,
    }
}

fn gen_literal(c: &mut Ctx, schema: &Schema, ty: &TypeRef, dc: &mut DeclCtx, depth: usize) -> Option<Val> {
    if !ty.is_non_null() && c.t.chance(1, 10) {
        return Some(Val::Null);
    }
    match ty {
        TypeRef::List { .. } => None,
        TypeRef::Named { name, .. } => match name.as_str() {
            "Int" | "Float" => Some(Val::Int(gen_int(c))),
            "Boolean" => Some(Val::Bool(c.t.chance(1, 2))),
            "String" => Some(Val::Str(gen_string(c))),
            "ID" => {
                if c.t.chance(1, 3) {
                    Some(Val::Int(c.t.range(0, 9) as i64))
                } else {
                    Some(Val::Str(gen_string(c)))
                }
            }
            other => match schema.get(other) {
                Some(t) if t.kind == TypeKind::Input && depth < 3 => {
                    let mut fields = vec![];
                    for f in &t.fields {
                        let required = matches!(&f.ty, TypeRef::Named { non_null: true, .. }) || matches!(&f.ty, TypeRef::List { non_null: true, .. });
                        if required || c.t.chance(1, 2) {
                            let allow_var = c.cfg.vars_in_objects;
                            let v = gen_value_inner(c, schema, &f.ty, dc, &f.name, depth + 1, allow_var)?;
                            fields.push((f.name.clone(), v));
                        }
                    }
                    Some(Val::Obj(fields))
                }
                _ => None,
            },
        },
    }
}

fn gen_int(c: &mut Ctx) -> i64 {
    let k = c.t.choose(12);
    match k {
        0..=5 => k as i64,
        6 => 42,
        7 => 2147483647,
        8 if c.cfg.negative_ints => -5,
        9 if c.cfg.negative_ints => -2147483648,
        10 if c.cfg.big_ints => 2147483648,
        11 if c.cfg.big_ints => 9223372036854775807,
        _ => 7,
    }
}

fn gen_string(c: &mut Ctx) -> String {
    if c.cfg.odd_strings && c.t.chance(1, 2) {
        c.t.pick(ODD_STRINGS).to_string()
    } else {
        c.t.pick(PLAIN_STRINGS).to_string()
    }
}

fn gen_var(c: &mut Ctx, ty: &TypeRef, dc: &mut DeclCtx, hint: &str) -> Val {
    // reuse a compatible declared variable sometimes
    let compatible: Vec<usize> = dc.vars.iter().enumerate().filter(|(_, v)| type_compatible(&v.ty, ty)).map(|(i, _)| i).collect();
    if !compatible.is_empty() && c.t.chance(1, 2) {
        let i = compatible[c.t.choose(compatible.len())];
        return Val::Var(dc.vars[i].name.clone());
    }
    let mut var_ty = if !ty.is_non_null() && c.t.chance(1, 3) { ty.with_non_null(true) } else { ty.clone() };
    if let TypeRef::List { inner, non_null } = &var_ty {
        // a list of non-null items may flow into a list of nullable items
        if !inner.is_non_null() && c.t.chance(1, 3) {
            var_ty = TypeRef::List { inner: Box::new(inner.with_non_null(true)), non_null: *non_null };
        }
    }
    let mut name = base_var_name(hint);
    let mut k = 1;
    while dc.vars.iter().any(|v| v.name == name) {
        k += 1;
        name = format!("{hint}{k}");
    }
    let default = if !var_ty.is_non_null() && c.t.chance(1, 6) {
        match var_ty.inner_name() {
            "Int" if !var_ty.is_list() => Some(Val::Int(3)),
            "String" if !var_ty.is_list() => Some(Val::Str("dflt".into())),
            "Boolean" if !var_ty.is_list() => Some(Val::Bool(true)),
            _ => None,
        }
    } else {
        None
    };
    dc.vars.push(VarDef { name: name.clone(), ty: var_ty, default });
    Val::Var(name)
}

fn gen_value_inner(c: &mut Ctx, schema: &Schema, ty: &TypeRef, dc: &mut DeclCtx, hint: &str, depth: usize, allow_var: bool) -> Option<Val> {
    if ty.is_list() && !c.cfg.list_variables {
        // list values can only be written as variables, and list-typed variables are a recorded
        // finding (rejected by the compiler): excluded by construction unless asked for
        return if !ty.is_non_null() { Some(Val::Null) } else { None };
    }
    let want_var = allow_var && c.t.chance(1, 3);
    if !want_var {
        if let Some(v) = gen_literal(c, schema, ty, dc, depth) {
            return Some(v);
        }
    }
    if allow_var {
        Some(gen_var(c, ty, dc, hint))
    } else {
        // no literal syntax for this type and variables not allowed here
        if !ty.is_non_null() { Some(Val::Null) } else { None }
    }
}

fn gen_value(c: &mut Ctx, schema: &Schema, ty: &TypeRef, dc: &mut DeclCtx, hint: &str) -> Val {
    gen_value_inner(c, schema, ty, dc, hint, 0, true).expect("top-level values can always fall back to a variable")
}

fn gen_field_args(c: &mut Ctx, schema: &Schema, defs: &[ArgDef], dc: &mut DeclCtx, may_omit_required: bool, coincide: bool) -> Vec<(String, Val)> {
    let mut out: Vec<(String, Val)> = vec![];
    for a in defs {
        let required = a.ty.is_non_null() && a.default.is_none();
        let provide = if required { !may_omit_required || c.t.chance(1, 2) } else { c.t.chance(1, 2) };
        if provide {
            // passing the SAME value to several parameters of one client field makes keys that differ
            // inside the field coincide after substitution: a merge case of its own
            let earlier: Option<(Val, TypeRef)> = out.iter().find_map(|(n, v): &(String, Val)| {
                let d = defs.iter().find(|d| d.name == *n)?;
                if type_compatible_value(&d.ty, &a.ty) { Some((v.clone(), d.ty.clone())) } else { None }
            });
            let v = match earlier {
                Some((v, _)) if coincide && c.t.chance(1, 2) => v,
                _ => gen_value(c, schema, &a.ty, dc, &a.name),
            };
            out.push((a.name.clone(), v));
        }
    }
    out
}

/// May a value generated for a parameter of type `from` be passed to one of type `to`? (same named
/// type; the target must not be stricter about null)
fn type_compatible_value(from: &TypeRef, to: &TypeRef) -> bool {
    type_compatible(from, to)
}

#[derive(Clone)]
enum Cand {
    Server(FieldDef),
    Typename,
    Link,
    AsType(String),
    Client(usize),
    Exposed(usize),
    Refetch,
}

fn gen_selset(c: &mut Ctx, p: &Project, ty: &str, depth: usize, dc: &mut DeclCtx, decl_index: usize) -> Vec<Sel> {
    let schema = &p.schema;
    let kind = schema.kind_of(ty);
    let mut cands: Vec<Cand> = vec![];
    for f in schema.fields_of(ty) {
        let composite = schema.is_composite(f.ty.inner_name());
        if composite && depth >= 3 {
            continue;
        }
        cands.push(Cand::Server(f.clone()));
    }
    cands.push(Cand::Typename);
    if c.cfg.advanced {
        if matches!(kind, TypeKind::Interface | TypeKind::Union) && depth < 3 {
            for m in schema.possible_types(ty) {
                cands.push(Cand::AsType(m));
            }
        }
        cands.push(Cand::Link);
    }
    if c.cfg.client_graph {
        for (j, d) in p.decls.iter().enumerate() {
            if j < decl_index && d.parent == ty && (depth < 3 || !d.is_pointer()) {
                cands.push(Cand::Client(j));
                cands.push(Cand::Client(j)); // weight
            }
        }
    }
    if c.cfg.expose {
        for (j, e) in p.expose.iter().enumerate() {
            if e.attached_to == ty {
                cands.push(Cand::Exposed(j));
            }
        }
    }
    if c.cfg.refetch_fields && ty != "Query" && kind == TypeKind::Object && schema.get(ty).map(|t| t.has_id()).unwrap_or(false) {
        cands.push(Cand::Refetch);
    }
    if c.cfg.ref_weight > 0 {
        let heavy: Vec<Cand> = cands.iter().filter(|x| matches!(x, Cand::Client(_) | Cand::Exposed(_) | Cand::Refetch)).cloned().collect();
        for _ in 0..c.cfg.ref_weight {
            cands.extend(heavy.iter().cloned());
        }
    }
    let n = c.t.range(1, 4);
    let mut out: Vec<Sel> = vec![];
    let mut last_server: Option<FieldDef> = None;
    let mut last_client: Option<usize> = None;
    for _ in 0..n {
        let mut cand = cands[c.t.choose(cands.len())].clone();
        // bias towards the same server field selected twice in one selection set (it gets an alias
        // below): equal and near-equal (field, arguments) pairs are what merging has to get right
        if let Some(prev) = &last_server {
            if c.t.chance(1, 5) {
                cand = Cand::Server(prev.clone());
            }
        }
        if let Cand::Server(f) = &cand {
            last_server = Some(f.clone());
        }
        // same bias for client fields and pointers: the same selectable twice (or more) in one
        // selection set, aliased, usually with different arguments — ties for everything the
        // compiler keys by selectable name only
        if let Some(j) = last_client {
            if c.t.chance(1, 5) {
                cand = Cand::Client(j);
            }
        }
        if let Cand::Client(j) = &cand {
            last_client = Some(*j);
        }
        let mut sel = match cand {
            Cand::Server(f) => {
                let args = gen_field_args(c, schema, &f.args, dc, false, false);
                let target_name = f.ty.inner_name().to_string();
                if schema.is_composite(&target_name) {
                    let children = gen_selset(c, p, &target_name, depth + 1, dc, decl_index);
                    Sel { alias: None, name: f.name.clone(), args, directive: SelDirective::None, children: Some(children), target: Target::ServerObject(target_name) }
                } else {
                    let directive = if c.cfg.advanced && c.t.chance(1, 12) { SelDirective::Updatable } else { SelDirective::None };
                    Sel { alias: None, name: f.name.clone(), args, directive, children: None, target: Target::ServerScalar }
                }
            }
            Cand::Typename => Sel { alias: None, name: "__typename".into(), args: vec![], directive: SelDirective::None, children: None, target: Target::Typename },
            Cand::Link => Sel { alias: None, name: "__link".into(), args: vec![], directive: SelDirective::None, children: None, target: Target::Link },
            Cand::AsType(m) => {
                let children = gen_selset(c, p, &m, depth + 1, dc, decl_index);
                Sel { alias: None, name: format!("as{m}"), args: vec![], directive: SelDirective::None, children: Some(children), target: Target::AsType(m) }
            }
            Cand::Client(j) => {
                let d = &p.decls[j];
                let fetchable = ty == "Query" || schema.get(ty).map(|t| t.has_id()).unwrap_or(false);
                let loadable = c.cfg.advanced && !d.is_pointer() && (fetchable || c.cfg.risky) && c.t.chance(1, 5);
                let defs: Vec<ArgDef> = d.vars.iter().map(|v| ArgDef { name: v.name.clone(), ty: v.ty.clone(), default: v.default.clone() }).collect();
                let args = gen_field_args(c, schema, &defs, dc, loadable && c.cfg.risky, true);
                match &d.kind {
                    DeclKind::Pointer { target } => {
                        let children = gen_selset(c, p, target.inner_name(), depth + 1, dc, decl_index);
                        Sel { alias: None, name: d.name.clone(), args, directive: SelDirective::None, children: Some(children), target: Target::ClientPointer(j) }
                    }
                    DeclKind::Field { .. } => {
                        let directive = if loadable { SelDirective::Loadable { lazy_load_artifact: c.t.chance(1, 2) } } else { SelDirective::None };
                        Sel { alias: None, name: d.name.clone(), args, directive, children: None, target: Target::ClientField(j) }
                    }
                }
            }
            Cand::Exposed(j) => {
                let e = &p.expose[j];
                let name = e.alias.clone().unwrap_or_else(|| e.path[0].clone());
                Sel { alias: None, name, args: vec![], directive: SelDirective::None, children: None, target: Target::Exposed(j) }
            }
            Cand::Refetch => Sel { alias: None, name: "__refetch".into(), args: vec![], directive: SelDirective::None, children: None, target: Target::Refetch },
        };
        // unique response names inside one selection set (a C16 rule): alias on collision, and
        // sometimes voluntarily
        let collides = out.iter().any(|s| s.name_or_alias() == sel.name_or_alias());
        if collides || (c.cfg.client_graph && c.t.chance(1, 8)) {
            let mut k = 1;
            loop {
                let a = format!("{}_{k}", lower_first(sel.name.trim_start_matches('_')));
                if !out.iter().any(|s| s.name_or_alias() == a) && schema.fields_of(ty).iter().all(|f| f.name != a) {
                    sel.alias = Some(a);
                    break;
                }
                k += 1;
            }
        }
        out.push(sel);
    }
    out
}

fn build_decls(c: &mut Ctx, p: &mut Project) {
    let objects: Vec<String> = p
        .schema
        .types
        .iter()
        .filter(|t| t.kind == TypeKind::Object && t.name != "Mutation" && t.name != "SetResponse")
        .map(|t| t.name.clone())
        .collect();
    let n = c.t.range(0, c.cfg.max_decls);
    // shape "project with no client fields" is reached with n == 0
    for i in 0..n {
        // bias: later declarations sit on Query so that they can reach earlier ones
        let parent = if i + 1 == n || c.t.chance(1, 3) { "Query".to_string() } else { c.t.pick(&objects).clone() };
        let parent_fetchable = parent == "Query" || p.schema.get(&parent).map(|t| t.has_id()).unwrap_or(false);
        let pointer = c.cfg.client_graph && (parent_fetchable || c.cfg.risky) && c.t.chance(1, c.cfg.pointer_den.max(1));
        let (kind, name) = if pointer {
            let targets: Vec<String> = objects
                .iter()
                .filter(|o| *o != "Query" && (c.cfg.risky || p.schema.get(o).map(|t| t.has_id()).unwrap_or(false)))
                .cloned()
                .collect();
            if targets.is_empty() {
                continue;
            }
            let mut target_name = c.t.pick(&targets).clone();
            // dense preset: a pointer to another type, selected inside a nested client field, runs
            // into the recorded crash `Expected refetch strategy` (C08), which hides everything
            // behind it; pointers back to the parent type do not
            if c.cfg.pointer_den < 6 && targets.contains(&parent) && c.t.chance(2, 3) {
                target_name = parent.clone();
            }
            let target = if c.t.chance(1, 3) { TypeRef::list(TypeRef::named(&target_name, true), true) } else { TypeRef::named(&target_name, false) };
            (DeclKind::Pointer { target }, c.t.pick(POINTER_NAMES).to_string())
        } else {
            (DeclKind::Field { component: c.t.chance(1, 2) }, c.t.pick(CLIENT_FIELD_NAMES).to_string())
        };
        let mut name = name;
        let mut k = 1;
        while p.decls.iter().any(|d| d.parent == parent && d.name == name) {
            k += 1;
            name = format!("{name}{k}");
        }
        let mut dc = DeclCtx { vars: vec![] };
        let selections = gen_selset(c, p, &parent, 0, &mut dc, p.decls.len());
        let file = c.t.choose(p.file_names.len());
        let desc = description(c);
        p.decls.push(Decl {
            kind,
            parent: parent.clone(),
            name: name.clone(),
            vars: dc.vars,
            selections,
            description: desc,
            export_name: format!("{parent}__{name}"),
            file,
        });
    }
}

fn build_entrypoints(c: &mut Ctx, p: &mut Project) {
    let mut any = false;
    let n = p.decls.len();
    for i in 0..n {
        let d = &p.decls[i];
        if d.parent != "Query" || d.is_pointer() {
            continue;
        }
        let last_chance = !any && p.decls[i + 1..].iter().all(|d| d.parent != "Query" || d.is_pointer());
        // dense preset: every Query field is an entrypoint, so that every reader that nests another
        // client field is actually generated
        if last_chance || c.cfg.pointer_den < 6 || c.t.chance(2, 3) {
            any = true;
            let lazy = c.cfg.advanced && c.t.chance(1, 5);
            let file = c.t.choose(p.file_names.len());
            let (parent, name) = (d.parent.clone(), d.name.clone());
            p.entrypoints.push(Entrypoint { parent: parent.clone(), name: name.clone(), lazy, file });
            if c.t.chance(1, 8) {
                // the same entrypoint declared a second time, elsewhere (must agree on laziness)
                let file2 = c.t.choose(p.file_names.len());
                p.entrypoints.push(Entrypoint { parent, name, lazy, file: file2 });
            }
        }
    }
}

fn build_config(c: &mut Ctx) -> ConfigModel {
    let mut m = ConfigModel::default();
    m.module = match c.t.choose(3) {
        0 => None,
        1 => Some("commonjs".into()),
        _ => Some("esmodule".into()),
    };
    m.include_file_extensions = c.t.chance(1, 2);
    m.no_babel_transform = c.t.chance(1, 3);
    m.header = if c.t.chance(1, 3) { Some(c.t.pick(&["generated by isograph", "@noformat */ é", "x"]).to_string()) } else { None };
    m.persisted = if c.t.chance(1, 3) {
        let alg = if c.t.chance(1, 2) { "md5" } else { "sha256" };
        let file = if c.t.chance(1, 2) { Some("custom_persisted.json".to_string()) } else { None };
        Some((alg.to_string(), c.t.chance(1, 2), file))
    } else {
        None
    };
    m.separate_artifact_dir = c.t.chance(1, 4);
    m
}
