//! Case specifications shared by the project-level checks: a case is a pure function of three
//! proptest-generated values (project tape, variant selector, mutation tape).
use crate::mutate::{self, Mutation, Rule, ALL_RULES};
use crate::tape::Tape;
use crate::{build_project, render, GenConfig, Project, Rendered, Sel, SelDirective, Target};
use proptest::prelude::*;
use serde_json::{json, Value};

#[derive(Clone, Debug)]
pub struct CaseSpec {
    pub tape: Vec<u16>,
    pub variant: u16,
    pub mtape: Vec<u16>,
}

pub fn case_strategy() -> impl Strategy<Value = CaseSpec> {
    (crate::tape_strategy(400), any::<u16>(), prop::collection::vec(any::<u16>(), 0..24))
        .prop_map(|(tape, variant, mtape)| CaseSpec { tape, variant, mtape })
}

#[derive(Clone, Debug, PartialEq)]
pub enum Kind {
    /// generated to be accepted
    Valid,
    /// one C16 rule violated
    Mutant(Rule),
    /// raw token-level damage to schema / extension / source text
    RawMutation,
    /// client fields that select each other / themselves
    Cyclic,
}

#[derive(Clone, Debug)]
pub struct Case {
    pub kind: Kind,
    pub tier: &'static str,
    pub project: Project,
    pub rendered: Rendered,
    pub mutation: Option<Mutation>,
    pub note: String,
}

impl Case {
    pub fn to_json(&self) -> Value {
        json!({
            "kind": format!("{:?}", self.kind),
            "tier": self.tier,
            "note": self.note,
            "mutation": self.mutation.as_ref().map(|m| json!({"rule": format!("{:?}", m.rule), "decl": m.decl, "path": m.path, "note": m.note})),
            "files": self.rendered.files,
        })
    }
}

pub fn tier_config(sel: usize, exclude: &Exclusions) -> (&'static str, GenConfig) {
    let (name, mut cfg) = match sel % 5 {
        0 => ("core", GenConfig::core()),
        1 => ("client-graph", GenConfig::client_graph()),
        2 => ("advanced", GenConfig::advanced()),
        3 => ("everything", GenConfig::everything()),
        // shapes that crash the compiler at the pinned commit (recorded findings); only checks that
        // ask for tier 4 get them
        _ if exclude.allow_risky => ("risky", GenConfig::everything().risky()),
        _ => ("advanced", GenConfig::advanced()),
    };
    exclude.apply(&mut cfg);
    (name, cfg)
}

/// Generator switches that exclude recorded findings by construction so that the search
/// continues behind them. Each check decides which ones it turns on and counts what it excluded.
#[derive(Clone, Debug, Default)]
pub struct Exclusions {
    pub no_hostile_text: bool,
    pub no_odd_strings: bool,
    pub no_negative_ints: bool,
    pub no_vars_in_objects: bool,
    /// C08 only: also generate the shapes behind recorded crash findings
    pub allow_risky: bool,
}

impl Exclusions {
    pub fn apply(&self, cfg: &mut GenConfig) {
        if self.no_hostile_text {
            cfg.hostile_text = false;
        }
        if self.no_odd_strings {
            cfg.odd_strings = false;
        }
        if self.no_negative_ints {
            cfg.negative_ints = false;
        }
        if self.no_vars_in_objects {
            cfg.vars_in_objects = false;
        }
    }
}

/// A valid project of the tier selected by `variant`.
pub fn valid_case(spec: &CaseSpec, exclude: &Exclusions) -> Case {
    let (tier, cfg) = tier_config(spec.variant as usize, exclude);
    let project = build_project(spec.tape.clone(), &cfg);
    let rendered = render(&project);
    Case { kind: Kind::Valid, tier, project, rendered, mutation: None, note: String::new() }
}

/// A single-fault mutant of a core/client-graph project (rule chosen by the variant).
pub fn mutant_case(spec: &CaseSpec, exclude: &Exclusions) -> Option<Case> {
    let tier_sel = (spec.variant as usize / ALL_RULES.len()) % 2;
    let (tier, cfg) = tier_config(tier_sel, exclude);
    let project = build_project(spec.tape.clone(), &cfg);
    let rule = ALL_RULES[spec.variant as usize % ALL_RULES.len()];
    let mut t = Tape::new(spec.mtape.clone());
    let (mutated, m) = mutate::mutate(&project, rule, &mut t)?;
    let rendered = render(&mutated);
    Some(Case { kind: Kind::Mutant(rule), tier, project: mutated, rendered, note: m.note.clone(), mutation: Some(m) })
}

const DICT: &[&str] = &[
    "{", "}", "(", ")", ":", "!", "$", "@", "\"", "\"\"\"", "...", ".", ",", "=", "[", "]", "|", "&", "#",
    "99999999999999999999", "-0", "-1", "1.5", "1e3", "é", "😀", "\u{0}", "\u{feff}", "\\", "`", "field", "entrypoint",
    "pointer", "to", "type", "extend", "input", "null", "true", "@loadable", "@component", "@updatable", "@exposeField",
    "__typename", "__link", "__refetch", "id", "Query", "String", "\r", "\n", "\t",
];

/// Crude token splitter (identifiers / numbers / whitespace runs / single other characters).
fn tokens(s: &str) -> Vec<&str> {
    let mut out = vec![];
    let mut start = 0;
    let mut last_class = 9u8;
    for (i, ch) in s.char_indices() {
        let class = if ch.is_alphanumeric() || ch == '_' { 0 } else if ch.is_whitespace() { 1 } else { 2 };
        if i > 0 && (class != last_class || class == 2) {
            out.push(&s[start..i]);
            start = i;
        }
        last_class = class;
    }
    if start < s.len() {
        out.push(&s[start..]);
    }
    out
}

pub fn raw_mutate(text: &str, t: &mut Tape) -> (String, String) {
    let mut toks: Vec<String> = tokens(text).into_iter().map(|s| s.to_string()).collect();
    let n_ops = t.range(1, 3);
    let mut notes = vec![];
    for _ in 0..n_ops {
        if toks.is_empty() {
            break;
        }
        let i = t.choose(toks.len());
        match t.choose(6) {
            0 => {
                notes.push(format!("delete {:?}@{i}", toks[i]));
                toks.remove(i);
            }
            1 => {
                notes.push(format!("duplicate {:?}@{i}", toks[i]));
                let x = toks[i].clone();
                toks.insert(i, x);
            }
            2 => {
                let j = (i + 1 + t.choose(3)).min(toks.len() - 1);
                notes.push(format!("swap @{i} @{j}"));
                toks.swap(i, j);
            }
            3 => {
                let d = DICT[t.choose(DICT.len())];
                notes.push(format!("replace {:?}@{i} with {d:?}", toks[i]));
                toks[i] = d.to_string();
            }
            4 => {
                let d = DICT[t.choose(DICT.len())];
                notes.push(format!("insert {d:?}@{i}"));
                toks.insert(i, d.to_string());
            }
            _ => {
                notes.push(format!("truncate @{i}"));
                toks.truncate(i);
            }
        }
    }
    (toks.concat(), notes.join("; "))
}

/// Token-level damage to one file of a valid project.
pub fn raw_case(spec: &CaseSpec, exclude: &Exclusions) -> Case {
    let mut c = valid_case(spec, exclude);
    let mut t = Tape::new(spec.mtape.clone());
    let names: Vec<String> = c.rendered.files.keys().filter(|k| *k != "isograph.config.json").cloned().collect();
    let f = names[t.choose(names.len())].clone();
    let (text, note) = raw_mutate(&c.rendered.files[&f], &mut t);
    c.rendered.files.insert(f.clone(), text);
    c.kind = Kind::RawMutation;
    c.note = format!("{f}: {note}");
    c
}

/// Client fields that (transitively) select themselves.
pub fn cyclic_case(spec: &CaseSpec, exclude: &Exclusions) -> Option<Case> {
    let (tier, cfg) = tier_config(if exclude.allow_risky && spec.variant % 3 == 0 { 4 } else { 1 + (spec.variant as usize % 2) }, exclude);
    let mut project = build_project(spec.tape.clone(), &cfg);
    let mut t = Tape::new(spec.mtape.clone());
    let fields: Vec<usize> = project.decls.iter().enumerate().filter(|(_, d)| !d.is_pointer()).map(|(i, _)| i).collect();
    if fields.is_empty() {
        return None;
    }
    let a = fields[t.choose(fields.len())];
    let same_parent: Vec<usize> = fields.iter().copied().filter(|&j| project.decls[j].parent == project.decls[a].parent).collect();
    let b = same_parent[t.choose(same_parent.len())];
    let loadable = tier == "risky" && t.chance(1, 3);
    let mk = |p: &Project, j: usize, alias: &str| Sel {
        alias: Some(alias.to_string()),
        name: p.decls[j].name.clone(),
        args: p.decls[j]
            .vars
            .iter()
            .filter(|v| v.ty.is_non_null() && v.default.is_none())
            .map(|v| (v.name.clone(), crate::Val::Null))
            .collect(),
        directive: if loadable { SelDirective::Loadable { lazy_load_artifact: false } } else { SelDirective::None },
        children: None,
        target: Target::ClientField(j),
    };
    // only cycles through fields without required variables keep the mutant otherwise valid
    let needs_args = |p: &Project, j: usize| p.decls[j].vars.iter().any(|v| v.ty.is_non_null() && v.default.is_none());
    if needs_args(&project, a) || needs_args(&project, b) {
        return None;
    }
    let sb = mk(&project, b, "cyc_b");
    let sa = mk(&project, a, "cyc_a");
    project.decls[a].selections.push(sb);
    if a != b {
        project.decls[b].selections.push(sa);
    }
    // often: a field OUTSIDE the cycle that selects into it and is reachable from an entrypoint
    // (cycle detection has to find the cycle whichever declaration it starts from)
    let mut outside = false;
    if t.chance(2, 3) {
        let parent = project.decls[a].parent.clone();
        let into_cycle = Sel {
            alias: None,
            name: project.decls[a].name.clone(),
            args: vec![],
            directive: SelDirective::None,
            children: None,
            target: Target::ClientField(a),
        };
        let selections = if parent == "Query" {
            Some(vec![into_cycle])
        } else {
            project
                .schema
                .fields_of("Query")
                .iter()
                .find(|f| f.ty.inner_name() == parent)
                .map(|f| {
                    let args = f
                        .args
                        .iter()
                        .filter(|d| d.ty.is_non_null() && d.default.is_none())
                        .map(|d| {
                            let v = match d.ty.inner_name() {
                                "Int" | "Float" => crate::Val::Int(1),
                                "Boolean" => crate::Val::Bool(true),
                                _ => crate::Val::Str("x".into()),
                            };
                            (d.name.clone(), v)
                        })
                        .collect();
                    vec![Sel { alias: None, name: f.name.clone(), args, directive: SelDirective::None, children: Some(vec![into_cycle]), target: Target::ServerObject(parent.clone()) }]
                })
        };
        if let Some(selections) = selections {
            let k = t.range(1, 3);
            for i in 0..k {
                let name = format!("CycOutside{i}");
                project.decls.push(crate::Decl {
                    kind: crate::DeclKind::Field { component: false },
                    parent: "Query".into(),
                    name: name.clone(),
                    vars: vec![],
                    selections: selections.clone(),
                    description: None,
                    export_name: format!("Query__{name}"),
                    file: 0,
                });
                project.entrypoints.push(crate::Entrypoint { parent: "Query".into(), name, lazy: false, file: 0 });
            }
            outside = true;
        }
    }
    let rendered = render(&project);
    let note = format!(
        "{}{}",
        if a == b { "a client field selects itself" } else { "two client fields select each other" },
        if loadable { " @loadable" } else if outside { " (+ outside fields selecting into the cycle from entrypoints)" } else { "" }
    );
    Some(Case { kind: Kind::Cyclic, tier, project, rendered, mutation: None, note })
}

pub fn load_case_files(v: &Value) -> Rendered {
    let mut files = std::collections::BTreeMap::new();
    if let Some(m) = v["files"].as_object() {
        for (k, val) in m {
            files.insert(k.clone(), val.as_str().unwrap_or_default().to_string());
        }
    }
    Rendered { files }
}
