//! The typed project model: what oracles consult. Everything printed to disk is derived from it.
use serde::{Deserialize, Serialize};
use std::collections::BTreeMap;

#[derive(Clone, Debug, PartialEq, Eq, Hash, Serialize, Deserialize)]
pub enum TypeRef {
    Named { name: String, non_null: bool },
    List { inner: Box<TypeRef>, non_null: bool },
}

impl TypeRef {
    pub fn named(name: &str, non_null: bool) -> TypeRef {
        TypeRef::Named { name: name.to_string(), non_null }
    }
    pub fn list(inner: TypeRef, non_null: bool) -> TypeRef {
        TypeRef::List { inner: Box::new(inner), non_null }
    }
    pub fn inner_name(&self) -> &str {
        match self {
            TypeRef::Named { name, .. } => name,
            TypeRef::List { inner, .. } => inner.inner_name(),
        }
    }
    pub fn is_non_null(&self) -> bool {
        match self {
            TypeRef::Named { non_null, .. } | TypeRef::List { non_null, .. } => *non_null,
        }
    }
    pub fn is_list(&self) -> bool {
        matches!(self, TypeRef::List { .. })
    }
    pub fn list_depth(&self) -> usize {
        match self {
            TypeRef::Named { .. } => 0,
            TypeRef::List { inner, .. } => 1 + inner.list_depth(),
        }
    }
    pub fn with_non_null(&self, nn: bool) -> TypeRef {
        match self {
            TypeRef::Named { name, .. } => TypeRef::Named { name: name.clone(), non_null: nn },
            TypeRef::List { inner, .. } => TypeRef::List { inner: inner.clone(), non_null: nn },
        }
    }
    pub fn print(&self) -> String {
        match self {
            TypeRef::Named { name, non_null } => format!("{name}{}", if *non_null { "!" } else { "" }),
            TypeRef::List { inner, non_null } => format!("[{}]{}", inner.print(), if *non_null { "!" } else { "" }),
        }
    }
}

#[derive(Clone, Debug, PartialEq, Serialize, Deserialize)]
pub enum Val {
    Var(String),
    Str(String),
    Int(i64),
    Bool(bool),
    Null,
    Obj(Vec<(String, Val)>),
}

impl Val {
    /// Printed in iso-literal syntax. Strings are printed raw between double quotes (the iso
    /// parser takes the source text between the quotes as is).
    pub fn print(&self) -> String {
        match self {
            Val::Var(v) => format!("${v}"),
            Val::Str(s) => format!("\"{s}\""),
            Val::Int(i) => format!("{i}"),
            Val::Bool(b) => format!("{b}"),
            Val::Null => "null".to_string(),
            Val::Obj(fields) => {
                let inner: Vec<String> = fields.iter().map(|(k, v)| format!("{k}: {}", v.print())).collect();
                format!("{{ {} }}", inner.join(", "))
            }
        }
    }
    pub fn vars(&self, out: &mut Vec<String>) {
        match self {
            Val::Var(v) => out.push(v.clone()),
            Val::Obj(fields) => fields.iter().for_each(|(_, v)| v.vars(out)),
            _ => {}
        }
    }
    pub fn has_var_inside_object(&self) -> bool {
        fn inner(v: &Val, in_obj: bool) -> bool {
            match v {
                Val::Var(_) => in_obj,
                Val::Obj(f) => f.iter().any(|(_, v)| inner(v, true)),
                _ => false,
            }
        }
        inner(self, false)
    }
}

#[derive(Clone, Debug, PartialEq, Serialize, Deserialize)]
pub struct ArgDef {
    pub name: String,
    pub ty: TypeRef,
    pub default: Option<Val>,
}

#[derive(Clone, Debug, PartialEq, Serialize, Deserialize)]
pub struct FieldDef {
    pub name: String,
    pub args: Vec<ArgDef>,
    pub ty: TypeRef,
    pub description: Option<String>,
}

#[derive(Clone, Copy, Debug, PartialEq, Eq, Serialize, Deserialize)]
pub enum TypeKind {
    Object,
    Interface,
    Union,
    Input,
    Enum,
    Scalar,
}

#[derive(Clone, Debug, PartialEq, Serialize, Deserialize)]
pub struct TypeDef {
    pub kind: TypeKind,
    pub name: String,
    pub description: Option<String>,
    /// object: interfaces implemented
    pub implements: Vec<String>,
    /// object / interface fields; input fields (args empty)
    pub fields: Vec<FieldDef>,
    /// union members
    pub members: Vec<String>,
    /// enum values
    pub values: Vec<String>,
}

impl TypeDef {
    pub fn new(kind: TypeKind, name: &str) -> TypeDef {
        TypeDef { kind, name: name.to_string(), description: None, implements: vec![], fields: vec![], members: vec![], values: vec![] }
    }
    pub fn field(&self, name: &str) -> Option<&FieldDef> {
        self.fields.iter().find(|f| f.name == name)
    }
    pub fn has_id(&self) -> bool {
        self.fields.iter().any(|f| f.name == "id")
    }
}

#[derive(Clone, Debug, Default, PartialEq, Serialize, Deserialize)]
pub struct Schema {
    pub types: Vec<TypeDef>,
    pub has_mutation: bool,
}

pub const BUILTIN_SCALARS: &[&str] = &["String", "Int", "Boolean", "ID", "Float"];

impl Schema {
    pub fn get(&self, name: &str) -> Option<&TypeDef> {
        self.types.iter().find(|t| t.name == name)
    }
    pub fn kind_of(&self, name: &str) -> TypeKind {
        if BUILTIN_SCALARS.contains(&name) {
            return TypeKind::Scalar;
        }
        self.get(name).map(|t| t.kind).unwrap_or(TypeKind::Scalar)
    }
    pub fn is_composite(&self, name: &str) -> bool {
        matches!(self.kind_of(name), TypeKind::Object | TypeKind::Interface | TypeKind::Union)
    }
    /// Concrete object types a value of (abstract or concrete) type `name` can have.
    pub fn possible_types(&self, name: &str) -> Vec<String> {
        match self.get(name) {
            Some(t) if t.kind == TypeKind::Object => vec![t.name.clone()],
            Some(t) if t.kind == TypeKind::Union => t.members.clone(),
            Some(t) if t.kind == TypeKind::Interface => self
                .types
                .iter()
                .filter(|o| o.kind == TypeKind::Object && o.implements.contains(&t.name))
                .map(|o| o.name.clone())
                .collect(),
            _ => vec![],
        }
    }
    /// Fields selectable on a composite type (unions have none besides __typename).
    pub fn fields_of(&self, name: &str) -> &[FieldDef] {
        match self.get(name) {
            Some(t) if matches!(t.kind, TypeKind::Object | TypeKind::Interface) => &t.fields,
            _ => &[],
        }
    }
}

#[derive(Clone, Debug, PartialEq, Serialize, Deserialize)]
pub enum SelDirective {
    None,
    Loadable { lazy_load_artifact: bool },
    Updatable,
}

/// What a selection resolves to, by the model (never printed).
#[derive(Clone, Debug, PartialEq, Serialize, Deserialize)]
pub enum Target {
    ServerScalar,
    /// server object field; the (possibly abstract) type it yields
    ServerObject(String),
    Typename,
    /// `__link`
    Link,
    /// `asFoo { .. }` refinement to a concrete type
    AsType(String),
    /// client field (index into Project.decls)
    ClientField(usize),
    /// client pointer (index into Project.decls)
    ClientPointer(usize),
    /// `__refetch`
    Refetch,
    /// exposed (imperatively loaded) mutation/query field (index into Project.expose)
    Exposed(usize),
}

#[derive(Clone, Debug, PartialEq, Serialize, Deserialize)]
pub struct Sel {
    pub alias: Option<String>,
    pub name: String,
    pub args: Vec<(String, Val)>,
    pub directive: SelDirective,
    /// Some(..) = object selection with a selection set
    pub children: Option<Vec<Sel>>,
    pub target: Target,
}

impl Sel {
    pub fn name_or_alias(&self) -> &str {
        self.alias.as_deref().unwrap_or(&self.name)
    }
}

#[derive(Clone, Debug, PartialEq, Serialize, Deserialize)]
pub struct VarDef {
    pub name: String,
    pub ty: TypeRef,
    pub default: Option<Val>,
}

#[derive(Clone, Debug, PartialEq, Serialize, Deserialize)]
pub enum DeclKind {
    Field { component: bool },
    Pointer { target: TypeRef },
}

#[derive(Clone, Debug, PartialEq, Serialize, Deserialize)]
pub struct Decl {
    pub kind: DeclKind,
    pub parent: String,
    pub name: String,
    pub vars: Vec<VarDef>,
    pub selections: Vec<Sel>,
    pub description: Option<String>,
    pub export_name: String,
    pub file: usize,
}

impl Decl {
    pub fn is_pointer(&self) -> bool {
        matches!(self.kind, DeclKind::Pointer { .. })
    }
}

#[derive(Clone, Debug, PartialEq, Serialize, Deserialize)]
pub struct Entrypoint {
    pub parent: String,
    pub name: String,
    pub lazy: bool,
    pub file: usize,
}

/// `extend type <on> @exposeField(field: "<path>", as: "<alias>", fieldMap: [...])`
#[derive(Clone, Debug, PartialEq, Serialize, Deserialize)]
pub struct Expose {
    pub on: String,
    pub path: Vec<String>,
    pub alias: Option<String>,
    pub field_map: Vec<(String, String)>,
    /// the type the exposed field is attached to (the type at the end of the path)
    pub attached_to: String,
}

#[derive(Clone, Debug, PartialEq, Serialize, Deserialize)]
pub struct ConfigModel {
    pub module: Option<String>,
    pub include_file_extensions: bool,
    pub no_babel_transform: bool,
    pub header: Option<String>,
    /// (algorithm, include_extra_info, custom file name)
    pub persisted: Option<(String, bool, Option<String>)>,
    pub on_invalid_id_type: Option<String>,
    pub separate_artifact_dir: bool,
}

impl Default for ConfigModel {
    fn default() -> Self {
        ConfigModel {
            module: None,
            include_file_extensions: false,
            no_babel_transform: false,
            header: None,
            persisted: None,
            on_invalid_id_type: None,
            separate_artifact_dir: false,
        }
    }
}

#[derive(Clone, Debug, PartialEq, Serialize, Deserialize)]
pub struct Project {
    pub schema: Schema,
    pub expose: Vec<Expose>,
    pub decls: Vec<Decl>,
    pub entrypoints: Vec<Entrypoint>,
    pub file_names: Vec<String>,
    pub config: ConfigModel,
}

/// The project as files, relative to the project directory.
#[derive(Clone, Debug, PartialEq, Serialize, Deserialize)]
pub struct Rendered {
    pub files: BTreeMap<String, String>,
}
