//! Metamorphic variants (C15): transformations of a valid project that leave the data
//! requirements of every entrypoint unchanged.
//!
//! * `Permute`: the selections of every selection set (every level, every declaration) are
//!   re-ordered.
//! * `DuplicateAlias`: one selection (with its arguments, directive and sub-selections) is repeated
//!   in the same selection set under a fresh alias.
//! * `Extract`: part of one selection set is moved into a fresh client field declared on the type
//!   at that position and selected at the same place; the variables the moved selections use are
//!   declared by the new field (under new names) and passed as arguments.
use crate::model::*;
use crate::tape::Tape;
use serde::{Deserialize, Serialize};

#[derive(Clone, Copy, Debug, PartialEq, Eq, Hash, Serialize, Deserialize)]
pub enum VariantKind {
    Permute,
    DuplicateAlias,
    Extract,
}

pub const ALL_VARIANTS: &[VariantKind] = &[VariantKind::Permute, VariantKind::DuplicateAlias, VariantKind::Extract];

#[derive(Clone, Debug, Default, Serialize, Deserialize)]
pub struct VariantInfo {
    /// a selection with arguments was moved / repeated / re-ordered
    pub touched_args: bool,
    /// a nested level (depth >= 1 inside a declaration, or a selection with sub-selections) was touched
    pub touched_nested: bool,
    pub note: String,
}

fn child_type(p: &Project, s: &Sel) -> Option<String> {
    match &s.target {
        Target::ServerObject(t) | Target::AsType(t) => Some(t.clone()),
        Target::ClientPointer(j) => match &p.decls[*j].kind {
            DeclKind::Pointer { target } => Some(target.inner_name().to_string()),
            _ => None,
        },
        _ => None,
    }
}

fn has_args_deep(s: &Sel) -> bool {
    !s.args.is_empty() || s.children.as_ref().map(|c| c.iter().any(has_args_deep)).unwrap_or(false)
}

/// Every selection set of a declaration: (path of selection indices leading to it, type there).
fn selection_sets(p: &Project, decl: usize) -> Vec<(Vec<usize>, String)> {
    fn walk(p: &Project, sels: &[Sel], ty: &str, prefix: &mut Vec<usize>, out: &mut Vec<(Vec<usize>, String)>) {
        out.push((prefix.clone(), ty.to_string()));
        for (i, s) in sels.iter().enumerate() {
            if let (Some(ch), Some(t)) = (&s.children, child_type(p, s)) {
                prefix.push(i);
                walk(p, ch, &t, prefix, out);
                prefix.pop();
            }
        }
    }
    let mut out = vec![];
    let d = &p.decls[decl];
    let root_ty = d.parent.clone();
    walk(p, &d.selections, &root_ty, &mut vec![], &mut out);
    out
}

fn set_at<'a>(sels: &'a mut Vec<Sel>, path: &[usize]) -> &'a mut Vec<Sel> {
    match path.split_first() {
        None => sels,
        Some((i, rest)) => set_at(sels[*i].children.as_mut().expect("path leads through object selections"), rest),
    }
}

fn permute_set(sels: &mut Vec<Sel>, t: &mut Tape, depth: usize, info: &mut VariantInfo) {
    let before: Vec<String> = sels.iter().map(|s| s.name_or_alias().to_string()).collect();
    // Fisher-Yates driven by the tape
    for i in (1..sels.len()).rev() {
        let j = t.choose(i + 1);
        sels.swap(i, j);
    }
    let after: Vec<String> = sels.iter().map(|s| s.name_or_alias().to_string()).collect();
    if before != after {
        if depth > 0 {
            info.touched_nested = true;
        }
        if sels.iter().any(|s| !s.args.is_empty()) {
            info.touched_args = true;
        }
    }
    for s in sels.iter_mut() {
        if let Some(ch) = &mut s.children {
            permute_set(ch, t, depth + 1, info);
        }
    }
}

fn rename_vars_val(v: &mut Val, map: &[(String, String)]) {
    match v {
        Val::Var(n) => {
            if let Some((_, to)) = map.iter().find(|(from, _)| from == n) {
                *n = to.clone();
            }
        }
        Val::Obj(f) => f.iter_mut().for_each(|(_, v)| rename_vars_val(v, map)),
        _ => {}
    }
}

fn rename_vars(s: &mut Sel, map: &[(String, String)]) {
    for (_, v) in s.args.iter_mut() {
        rename_vars_val(v, map);
    }
    if let Some(ch) = &mut s.children {
        ch.iter_mut().for_each(|c| rename_vars(c, map));
    }
}

/// Give every variable occurrence its own fresh name; records (outer name, fresh name).
fn split_vars_val(v: &mut Val, counter: &mut usize, bindings: &mut Vec<(String, String)>) {
    match v {
        Val::Var(n) => {
            *counter += 1;
            let fresh = format!("x_{n}_{counter}");
            bindings.push((n.clone(), fresh.clone()));
            *n = fresh;
        }
        Val::Obj(f) => f.iter_mut().for_each(|(_, v)| split_vars_val(v, counter, bindings)),
        _ => {}
    }
}

fn split_vars(s: &mut Sel, counter: &mut usize, bindings: &mut Vec<(String, String)>) {
    for (_, v) in s.args.iter_mut() {
        split_vars_val(v, counter, bindings);
    }
    if let Some(ch) = &mut s.children {
        ch.iter_mut().for_each(|c| split_vars(c, counter, bindings));
    }
}

fn used_vars(s: &Sel, out: &mut Vec<String>) {
    for (_, v) in &s.args {
        let mut vs = vec![];
        v.vars(&mut vs);
        for n in vs {
            if !out.contains(&n) {
                out.push(n);
            }
        }
    }
    if let Some(ch) = &s.children {
        ch.iter().for_each(|c| used_vars(c, out));
    }
}

/// Apply one transformation. `None` when the project offers no place for it.
pub fn variant(p: &Project, kind: VariantKind, t: &mut Tape) -> Option<(Project, VariantInfo)> {
    let mut q = p.clone();
    let mut info = VariantInfo::default();
    match kind {
        VariantKind::Permute => {
            if q.decls.is_empty() {
                return None;
            }
            for d in q.decls.iter_mut() {
                permute_set(&mut d.selections, t, 0, &mut info);
            }
            info.note = "every selection set re-ordered".into();
        }
        VariantKind::DuplicateAlias => {
            if q.decls.is_empty() {
                return None;
            }
            let di = t.choose(q.decls.len());
            let sets = selection_sets(&q, di);
            let (path, ty) = sets[t.choose(sets.len())].clone();
            let field_names: Vec<String> = q.schema.fields_of(&ty).iter().map(|f| f.name.clone()).collect();
            let client_names: Vec<String> = q.decls.iter().filter(|d| d.parent == ty).map(|d| d.name.clone()).collect();
            let set = set_at(&mut q.decls[di].selections, &path);
            if set.is_empty() {
                return None;
            }
            let si = t.choose(set.len());
            let mut copy = set[si].clone();
            let mut k = 1;
            let alias = loop {
                let a = format!("dup_{k}");
                if !set.iter().any(|s| s.name_or_alias() == a) && !field_names.contains(&a) && !client_names.contains(&a) {
                    break a;
                }
                k += 1;
            };
            copy.alias = Some(alias.clone());
            info.touched_args = has_args_deep(&copy);
            info.touched_nested = !path.is_empty() || copy.children.is_some();
            info.note = format!("decl {di} path {path:?}: `{}` repeated as `{alias}`", set[si].name);
            set.insert(si + 1, copy);
        }
        VariantKind::Extract => {
            if q.decls.is_empty() {
                return None;
            }
            let di = t.choose(q.decls.len());
            let sets: Vec<(Vec<usize>, String)> = selection_sets(&q, di).into_iter().filter(|(_, ty)| q.schema.kind_of(ty) == TypeKind::Object).collect();
            if sets.is_empty() {
                return None;
            }
            let (path, ty) = sets[t.choose(sets.len())].clone();
            let new_index = q.decls.len();
            let mut k = 1;
            let name = loop {
                let n = format!("Extr{k}");
                if !q.decls.iter().any(|d| d.parent == ty && d.name == n) && q.schema.fields_of(&ty).iter().all(|f| f.name != n) {
                    break n;
                }
                k += 1;
            };
            let outer_vars = q.decls[di].vars.clone();
            let file = q.decls[di].file;
            let set = set_at(&mut q.decls[di].selections, &path);
            if set.is_empty() {
                return None;
            }
            // a contiguous, non-empty run [a, b)
            let a = t.choose(set.len());
            let b = a + 1 + t.choose(set.len() - a);
            let mut moved: Vec<Sel> = set.drain(a..b).collect();
            let mut vars = vec![];
            moved.iter().for_each(|s| used_vars(s, &mut vars));
            // either one inner variable per outer variable, or one inner variable per USE SITE (so that
            // several distinct inner variables are bound to the same outer value: the substituted keys
            // of different inner selections then coincide and must still be merged)
            let per_use_site = t.chance(1, 2);
            let map: Vec<(String, String)> = if per_use_site {
                let mut bindings: Vec<(String, String)> = vec![];
                let mut counter = 0usize;
                moved.iter_mut().for_each(|s| split_vars(s, &mut counter, &mut bindings));
                bindings
            } else {
                let map: Vec<(String, String)> = vars.iter().map(|v| (v.clone(), format!("x_{v}"))).collect();
                moved.iter_mut().for_each(|s| rename_vars(s, &map));
                map
            };
            let mut new_vars = vec![];
            let mut args = vec![];
            for (from, to) in &map {
                let Some(def) = outer_vars.iter().find(|v| &v.name == from) else {
                    return None;
                };
                new_vars.push(VarDef { name: to.clone(), ty: def.ty.clone(), default: None });
                args.push((to.clone(), Val::Var(from.clone())));
            }
            info.touched_args = moved.iter().any(has_args_deep);
            info.touched_nested = !path.is_empty() || moved.iter().any(|s| s.children.is_some());
            info.note = format!("decl {di} path {path:?}: selections {a}..{b} moved into {ty}.{name}({} variables)", new_vars.len());
            let mut alias = None;
            if set.iter().any(|s| s.name_or_alias() == name) {
                alias = Some(format!("{}_x", name.to_lowercase()));
            }
            set.insert(a, Sel { alias, name: name.clone(), args, directive: SelDirective::None, children: None, target: Target::ClientField(new_index) });
            q.decls.push(Decl {
                kind: DeclKind::Field { component: false },
                parent: ty.clone(),
                name: name.clone(),
                vars: new_vars,
                selections: moved,
                description: None,
                export_name: format!("{ty}__{name}"),
                file,
            });
        }
    }
    Some((q, info))
}
