//! Shared plumbing for every check: argument/seed handling, the evidence file, replay files,
//! the known-findings matcher and a thin proptest `TestRunner` wrapper.
//!
//! Contract (see DESIGN.md §2.2): exit 0 = property held on everything explored (known findings
//! are printed as `KNOWN-FINDING:` lines), exit 1 + `VIOLATION property=<id> replay=<path>` =
//! violation, exit 2 = inconclusive (harness problem, watchdog).

use std::collections::hash_map::DefaultHasher;
use std::collections::{BTreeMap, HashSet};
use std::hash::{Hash, Hasher};
use std::path::{Path, PathBuf};
use std::sync::atomic::{AtomicBool, Ordering};
use std::sync::Mutex;
use std::time::Instant;

pub use proptest;
pub use serde_json;
use proptest::strategy::{Strategy, ValueTree};
use proptest::test_runner::{Config, RngAlgorithm, RngSeed, TestCaseError, TestError, TestRunner};
use serde_json::{json, Value};

pub const DEFAULT_SEED: u64 = 20260921;

#[derive(Clone, Copy, PartialEq, Eq, Debug)]
pub enum Tier {
    Quick,
    Thorough,
}

impl Tier {
    pub fn as_str(self) -> &'static str {
        match self {
            Tier::Quick => "quick",
            Tier::Thorough => "thorough",
        }
    }
    /// `q` cases in the quick tier, `t` in the thorough tier.
    pub fn pick<T>(self, q: T, t: T) -> T {
        match self {
            Tier::Quick => q,
            Tier::Thorough => t,
        }
    }
}

#[derive(Clone, Debug)]
pub struct Args {
    pub property: String,
    pub tier: Tier,
    pub seed: u64,
    pub replay: Option<PathBuf>,
    pub rest: Vec<String>,
}

/// `<bin> <ID> [--tier quick|thorough] [--seed N] [--replay FILE] [extra…]`; `VERIF_SEED` and
/// `VERIF_TIER` are honoured when the flags are absent.
pub fn parse_args() -> Args {
    let mut it = std::env::args().skip(1);
    let mut property = None;
    let mut tier = std::env::var("VERIF_TIER").ok();
    let mut seed = std::env::var("VERIF_SEED").ok();
    let mut replay = None;
    let mut rest = vec![];
    while let Some(a) = it.next() {
        match a.as_str() {
            "--tier" => tier = it.next(),
            "--seed" => seed = it.next(),
            "--replay" => replay = it.next().map(PathBuf::from),
            _ if property.is_none() && !a.starts_with("--") => property = Some(a),
            _ => rest.push(a),
        }
    }
    let tier = match tier.as_deref() {
        Some("thorough") => Tier::Thorough,
        _ => Tier::Quick,
    };
    let seed = seed
        .and_then(|s| s.trim().parse::<i128>().ok())
        .map(|v| (v as i64) as u64 & 0x7fff_ffff_ffff_ffff)
        .unwrap_or(DEFAULT_SEED);
    Args {
        property: property.unwrap_or_else(|| inconclusive("missing property id")),
        tier,
        seed,
        replay,
        rest,
    }
}

pub fn verif_root() -> PathBuf {
    if let Ok(p) = std::env::var("VERIF_ROOT") {
        return PathBuf::from(p);
    }
    std::env::current_dir().expect("cwd")
}

pub fn repo_root() -> PathBuf {
    PathBuf::from(std::env::var("VERIF_REPO").unwrap_or_else(|_| "/repo".to_string()))
}

/// The real `isograph_cli` built from the working tree by the dispatcher (`pre=["cli"]`).
pub fn cli_path() -> PathBuf {
    repo_root().join("target/debug/isograph_cli")
}

/// Scratch space (tmpfs when there is one); never under /tmp.
pub fn scratch_base() -> PathBuf {
    let base = if Path::new("/dev/shm").is_dir() {
        PathBuf::from("/dev/shm")
    } else {
        verif_root().join("harness/target/scratch")
    };
    let p = base.join(format!("verif-scratch-{}", std::process::id()));
    std::fs::create_dir_all(&p).expect("scratch dir");
    p
}

pub fn remove_scratch() {
    let base = if Path::new("/dev/shm").is_dir() {
        PathBuf::from("/dev/shm")
    } else {
        verif_root().join("harness/target/scratch")
    };
    let _ = std::fs::remove_dir_all(base.join(format!("verif-scratch-{}", std::process::id())));
}

pub fn inconclusive(msg: &str) -> ! {
    println!("INCONCLUSIVE: {msg}");
    remove_scratch();
    std::process::exit(2)
}

pub fn hash_of<T: Hash + ?Sized>(t: &T) -> u64 {
    let mut h = DefaultHasher::new();
    t.hash(&mut h);
    h.finish()
}

pub fn derive_seed(seed: u64, name: &str, worker: u64) -> u64 {
    hash_of(&(seed, name, worker))
}

#[derive(Clone, Debug)]
pub struct KnownFinding {
    pub property: String,
    pub signature: String,
    pub what: String,
    pub replay: Option<String>,
}

fn load_known_findings(property: &str) -> Vec<KnownFinding> {
    let path = verif_root().join("known_findings.json");
    let Ok(text) = std::fs::read_to_string(&path) else {
        return vec![];
    };
    let v: Value = match serde_json::from_str(&text) {
        Ok(v) => v,
        Err(e) => inconclusive(&format!("known_findings.json does not parse: {e}")),
    };
    let mut out = vec![];
    for f in v["findings"].as_array().cloned().unwrap_or_default() {
        if f["status"] == "open" && f["property"] == property {
            out.push(KnownFinding {
                property: property.to_string(),
                signature: f["signature"].as_str().unwrap_or_default().to_string(),
                what: f["what"].as_str().unwrap_or_default().to_string(),
                replay: f["replay"].as_str().map(|s| s.to_string()),
            });
        }
    }
    out
}

/// A failed case. `signature` names the root cause (stable across inputs); it is what
/// `known_findings.json` is keyed on.
#[derive(Clone, Debug)]
pub struct Fail {
    pub signature: String,
    pub message: String,
}

impl Fail {
    pub fn new(signature: impl Into<String>, message: impl Into<String>) -> Self {
        Fail { signature: signature.into(), message: message.into() }
    }
}

#[derive(Default)]
struct Inner {
    evaluations: u64,
    nontrivial: HashSet<u64>,
    classes: BTreeMap<String, u64>,
    samples: Vec<Value>,
    sample_keys: HashSet<String>,
    excluded: BTreeMap<String, u64>,
    known_hits: BTreeMap<String, u64>,
    assumptions: Vec<String>,
    extra: BTreeMap<String, Value>,
    violations: Vec<(String, String)>,
    engines: Vec<String>,
    inconclusive: Vec<String>,
}

pub struct Report {
    pub property: String,
    pub tier: Tier,
    pub seed: u64,
    level: String,
    rule: Mutex<String>,
    start: Instant,
    inner: Mutex<Inner>,
    frozen: AtomicBool,
    known: Vec<KnownFinding>,
    /// strict = replay mode: known findings are not tolerated.
    pub strict: bool,
}

impl Report {
    pub fn new(args: &Args, level: &str, rule: &str) -> Report {
        Report {
            property: args.property.clone(),
            tier: args.tier,
            seed: args.seed,
            level: level.to_string(),
            rule: Mutex::new(rule.to_string()),
            start: Instant::now(),
            inner: Mutex::new(Inner::default()),
            frozen: AtomicBool::new(false),
            known: load_known_findings(&args.property),
            strict: args.replay.is_some(),
        }
    }

    pub fn set_rule(&self, rule: &str) {
        *self.rule.lock().unwrap() = rule.to_string();
    }

    /// Stop counting (called when the first failing case is seen: proptest re-runs the closure
    /// while shrinking and those runs must not inflate the evidence).
    pub fn freeze(&self) {
        self.frozen.store(true, Ordering::SeqCst);
    }
    pub fn unfreeze(&self) {
        self.frozen.store(false, Ordering::SeqCst);
    }
    pub fn is_frozen(&self) -> bool {
        self.frozen.load(Ordering::SeqCst)
    }

    /// Count one generated case. `nontrivial` = Some(key) when the case is non-trivial by the
    /// check's stated rule; distinct keys are counted. `classes` are generator-distribution labels.
    pub fn case<K: Hash + ?Sized>(&self, nontrivial: Option<&K>, classes: &[&str]) {
        if self.is_frozen() {
            return;
        }
        let mut g = self.inner.lock().unwrap();
        g.evaluations += 1;
        if let Some(k) = nontrivial {
            let h = hash_of(k);
            g.nontrivial.insert(h);
        }
        for c in classes {
            *g.classes.entry((*c).to_string()).or_insert(0) += 1;
        }
    }

    pub fn label(&self, class: &str) {
        if self.is_frozen() {
            return;
        }
        *self.inner.lock().unwrap().classes.entry(class.to_string()).or_insert(0) += 1;
    }

    pub fn label_n(&self, class: &str, n: u64) {
        if self.is_frozen() {
            return;
        }
        *self.inner.lock().unwrap().classes.entry(class.to_string()).or_insert(0) += n;
    }

    /// Keep at most `max_per_kind` samples per `kind`.
    pub fn sample(&self, kind: &str, max_per_kind: usize, v: impl FnOnce() -> Value) {
        if self.is_frozen() {
            return;
        }
        let mut g = self.inner.lock().unwrap();
        let n = g.sample_keys.iter().filter(|k| k.starts_with(&format!("{kind}#"))).count();
        if n >= max_per_kind {
            return;
        }
        g.sample_keys.insert(format!("{kind}#{n}"));
        let val = v();
        g.samples.push(json!({"kind": kind, "case": val}));
    }

    pub fn excluded(&self, signature: &str) {
        if self.is_frozen() {
            return;
        }
        *self.inner.lock().unwrap().excluded.entry(signature.to_string()).or_insert(0) += 1;
    }

    pub fn assumption(&self, s: &str) {
        let mut g = self.inner.lock().unwrap();
        if !g.assumptions.iter().any(|a| a == s) {
            g.assumptions.push(s.to_string());
        }
    }

    pub fn engine(&self, s: &str) {
        let mut g = self.inner.lock().unwrap();
        if !g.engines.iter().any(|a| a == s) {
            g.engines.push(s.to_string());
        }
    }

    pub fn extra(&self, key: &str, v: Value) {
        self.inner.lock().unwrap().extra.insert(key.to_string(), v);
    }

    pub fn note_inconclusive(&self, why: &str) {
        self.inner.lock().unwrap().inconclusive.push(why.to_string());
    }

    pub fn evaluations(&self) -> u64 {
        self.inner.lock().unwrap().evaluations
    }

    /// Is `signature` a listed open finding? In strict (replay) mode nothing is tolerated.
    pub fn is_known(&self, signature: &str) -> bool {
        !self.strict && self.known.iter().any(|k| k.signature == signature)
    }

    pub fn known_findings(&self) -> &[KnownFinding] {
        &self.known
    }

    /// Record that a listed finding was observed (always counted, also while frozen).
    pub fn known_hit(&self, signature: &str) {
        *self.inner.lock().unwrap().known_hits.entry(signature.to_string()).or_insert(0) += 1;
    }

    /// Filter a case result: a failure whose signature is a listed finding is tolerated (and
    /// counted); anything else passes through.
    pub fn tolerate(&self, r: Result<(), Fail>) -> Result<(), Fail> {
        match r {
            Err(f) if self.is_known(&f.signature) => {
                self.known_hit(&f.signature);
                Ok(())
            }
            // development aid only (never set by registered commands): shrink one signature
            Err(f) if !self.strict && std::env::var("VERIF_ONLY_SIG").map(|s| if let Some(e) = s.strip_prefix('=') { f.signature != e } else { !f.signature.contains(&s) }).unwrap_or(false) => Ok(()),
            // development aid only (never set by registered commands): list every failure
            // signature instead of stopping at the first one
            Err(f) if !self.strict && std::env::var("VERIF_SURVEY").is_ok() => {
                let mut g = self.inner.lock().unwrap();
                let first = !g.known_hits.contains_key(&format!("SURVEY {}", f.signature));
                *g.known_hits.entry(format!("SURVEY {}", f.signature)).or_insert(0) += 1;
                drop(g);
                if first {
                    println!("SURVEY first hit: {}\n{}", f.signature, f.message.lines().take(12).collect::<Vec<_>>().join("\n"));
                }
                Ok(())
            }
            other => other,
        }
    }

    /// Write a replay file and print the VIOLATION line. `input` must be enough to re-run the case
    /// without the generator library.
    pub fn violation(&self, name: &str, fail: &Fail, input: Value) -> PathBuf {
        let dir = verif_root().join("replays").join(&self.property);
        let _ = std::fs::create_dir_all(&dir);
        let safe: String = name
            .chars()
            .map(|c| if c.is_ascii_alphanumeric() || c == '-' || c == '_' { c } else { '_' })
            .collect();
        let path = dir.join(format!("violation-{}-{}-{}.json", safe, self.tier.as_str(), self.seed));
        let body = json!({
            "property": self.property,
            "seed": self.seed,
            "tier": self.tier.as_str(),
            "kind": name,
            "signature": fail.signature,
            "observed": fail.message,
            "input": input,
        });
        std::fs::write(&path, serde_json::to_string_pretty(&body).unwrap()).expect("write replay");
        println!("VIOLATION property={} replay={}", self.property, path.display());
        println!("  signature: {}", fail.signature);
        for l in fail.message.lines().take(40) {
            println!("  | {l}");
        }
        self.inner
            .lock()
            .unwrap()
            .violations
            .push((fail.signature.clone(), path.display().to_string()));
        path
    }

    pub fn violation_count(&self) -> usize {
        self.inner.lock().unwrap().violations.len()
    }

    fn write_evidence(&self) {
        let g = self.inner.lock().unwrap();
        let dir = verif_root().join("evidence");
        let _ = std::fs::create_dir_all(&dir);
        let mut coverage = serde_json::Map::new();
        coverage.insert("evaluations".into(), json!(g.evaluations));
        coverage.insert("distinct_nontrivial".into(), json!(g.nontrivial.len()));
        coverage.insert("rule".into(), json!(*self.rule.lock().unwrap()));
        coverage.insert("samples".into(), json!(g.samples));
        coverage.insert("classes".into(), json!(g.classes));
        coverage.insert("excluded_by_construction".into(), json!(g.excluded));
        coverage.insert("known_findings_hit".into(), json!(g.known_hits));
        coverage.insert("engines".into(), json!(g.engines));
        coverage.insert("inconclusive".into(), json!(g.inconclusive));
        for (k, v) in &g.extra {
            coverage.insert(k.clone(), v.clone());
        }
        let ev = json!({
            "property_id": self.property,
            "tier": self.tier.as_str(),
            "seed": self.seed,
            "level": self.level,
            "coverage": Value::Object(coverage),
            "assumptions": g.assumptions,
            "wall_s": self.start.elapsed().as_secs_f64(),
            "violations": g.violations.len(),
        });
        let path = dir.join(format!("{}.json", self.property));
        let tmp = dir.join(format!("{}.json.tmp", self.property));
        std::fs::write(&tmp, serde_json::to_string_pretty(&ev).unwrap()).expect("write evidence");
        std::fs::rename(&tmp, &path).expect("rename evidence");
    }

    /// Print KNOWN-FINDING lines, write the evidence file, clean scratch, exit.
    pub fn finish(&self) -> ! {
        if !self.strict {
            let hits = self.inner.lock().unwrap().known_hits.clone();
            for k in &self.known {
                let n = hits.get(&k.signature).copied().unwrap_or(0);
                if n > 0 {
                    println!(
                        "KNOWN-FINDING: property={} {} [signature={} hits={}]",
                        self.property, k.what, k.signature, n
                    );
                } else {
                    println!(
                        "NOTE: listed finding not observed in this run: property={} signature={}",
                        self.property, k.signature
                    );
                }
            }
        }
        self.write_evidence();
        remove_scratch();
        let (n, ev, nt, inc) = {
            let g = self.inner.lock().unwrap();
            (g.violations.len(), g.evaluations, g.nontrivial.len(), g.inconclusive.clone())
        };
        println!(
            "{} tier={} seed={} evaluations={} distinct_nontrivial={} violations={} wall_s={:.1}",
            self.property,
            self.tier.as_str(),
            self.seed,
            ev,
            nt,
            n,
            self.start.elapsed().as_secs_f64()
        );
        if n > 0 {
            std::process::exit(1)
        }
        if !inc.is_empty() && ev == 0 {
            println!("INCONCLUSIVE: {}", inc.join("; "));
            std::process::exit(2)
        }
        std::process::exit(0)
    }
}

/// Shrink budget of the proptest runners created after the call (checks whose cases spawn a
/// process lower it: a shrink step costs as much as a case).
pub static MAX_SHRINK_ITERS: std::sync::atomic::AtomicU32 = std::sync::atomic::AtomicU32::new(2048);

pub fn set_max_shrink_iters(n: u32) {
    MAX_SHRINK_ITERS.store(n, Ordering::Relaxed);
}

pub fn proptest_config(seed: u64, cases: u32) -> Config {
    Config {
        cases,
        failure_persistence: None,
        rng_algorithm: RngAlgorithm::ChaCha,
        rng_seed: RngSeed::Fixed(seed),
        max_shrink_iters: MAX_SHRINK_ITERS.load(Ordering::Relaxed),
        max_global_rejects: 1_000_000,
        ..Config::default()
    }
}

/// Run `cases` generated cases through `f`. Failures whose signature is a listed finding are
/// tolerated and counted; the first other failure is shrunk and returned with the failure the
/// shrunk value produces.
pub fn run_prop<S, F>(report: &Report, name: &str, cases: u32, strategy: S, f: F) -> Option<(S::Value, Fail)>
where
    S: Strategy,
    S::Value: Clone,
    F: Fn(&S::Value) -> Result<(), Fail>,
{
    run_prop_seeded(report, derive_seed(report.seed, name, 0), cases, strategy, f)
}

pub fn run_prop_seeded<S, F>(report: &Report, seed: u64, cases: u32, strategy: S, f: F) -> Option<(S::Value, Fail)>
where
    S: Strategy,
    S::Value: Clone,
    F: Fn(&S::Value) -> Result<(), Fail>,
{
    let mut runner = TestRunner::new(proptest_config(seed, cases));
    let last_fail: Mutex<Option<Fail>> = Mutex::new(None);
    // Once some worker has found a failure (the report is frozen) the other workers stop executing
    // cases: their results would not be counted, and with expensive cases (sub-processes) they would
    // only delay the verdict. The failing worker itself keeps executing (it is shrinking).
    let i_am_failing = std::cell::Cell::new(false);
    let result = runner.run(&strategy, |v| {
        if report.is_frozen() && !i_am_failing.get() {
            return Ok(());
        }
        match report.tolerate(f(&v)) {
        Ok(()) => Ok(()),
        Err(fail) => {
            i_am_failing.set(true);
            report.freeze();
            let msg = fail.signature.clone();
            *last_fail.lock().unwrap() = Some(fail);
            Err(TestCaseError::fail(msg))
        }
        }
    });
    match result {
        Ok(()) => None,
        Err(TestError::Fail(_, value)) => {
            // Re-run the shrunk value to get the failure that belongs to it.
            let fail = match report.tolerate(f(&value)) {
                Err(fail) => fail,
                Ok(()) => last_fail
                    .lock()
                    .unwrap()
                    .clone()
                    .unwrap_or_else(|| Fail::new("flaky", "failure did not reproduce on the shrunk value")),
            };
            Some((value, fail))
        }
        Err(TestError::Abort(reason)) => {
            report.note_inconclusive(&format!("proptest aborted: {reason}"));
            None
        }
    }
}

/// Same as `run_prop` on `workers` threads, each with its own derived seed and `cases/workers`
/// cases. The strategy is built per worker. Returns the first failure (lowest worker index).
pub fn run_prop_parallel<S, F, M>(
    report: &Report,
    name: &str,
    cases: u32,
    workers: usize,
    make: M,
    f: F,
) -> Option<(S::Value, Fail)>
where
    S: Strategy,
    S::Value: Clone + Send,
    M: Fn() -> S + Sync,
    F: Fn(&S::Value) -> Result<(), Fail> + Sync,
{
    let workers = workers.max(1);
    let per = cases.div_ceil(workers as u32).max(1);
    let mut results: Vec<Option<(S::Value, Fail)>> = Vec::new();
    std::thread::scope(|scope| {
        let handles: Vec<_> = (0..workers)
            .map(|w| {
                let make = &make;
                let f = &f;
                let seed = derive_seed(report.seed, name, w as u64);
                // generous stacks: the compiler under test recurses deeply on nested selections
                std::thread::Builder::new()
                    .stack_size(512 << 20)
                    .spawn_scoped(scope, move || {
                        let strat = make();
                        run_prop_seeded(report, seed, per, strat, f)
                    })
                    .expect("spawn worker")
            })
            .collect();
        for h in handles {
            results.push(h.join().unwrap_or_else(|_| {
                Some_panic()
            }));
        }
    });
    results.into_iter().flatten().next()
}

#[allow(non_snake_case)]
fn Some_panic<T>() -> Option<T> {
    inconclusive("a harness worker thread panicked outside a guarded region")
}

/// Generate `n` values from a strategy deterministically (no shrinking), for drivers that run
/// cases in bulk (sub-process pools) and shrink by other means.
pub fn generate_values<S: Strategy>(seed: u64, n: usize, strategy: &S) -> Vec<S::Value> {
    let mut runner = TestRunner::new(proptest_config(seed, n as u32));
    (0..n)
        .map(|_| strategy.new_tree(&mut runner).expect("strategy").current())
        .collect()
}

/// Run a closure, turning a panic into `Err(message)`. The default panic hook is silenced for the
/// duration (per-thread flag) so expected panics do not flood stderr.
pub fn catch_panic<T>(f: impl FnOnce() -> T) -> Result<T, String> {
    install_quiet_hook();
    QUIET.with(|q| q.set(q.get() + 1));
    let r = std::panic::catch_unwind(std::panic::AssertUnwindSafe(f));
    QUIET.with(|q| q.set(q.get() - 1));
    r.map_err(|e| {
        let msg = if let Some(s) = e.downcast_ref::<&str>() {
            s.to_string()
        } else if let Some(s) = e.downcast_ref::<String>() {
            s.clone()
        } else {
            "non-string panic payload".to_string()
        };
        let loc = LAST_PANIC_LOC.with(|l| l.borrow().clone());
        format!("{msg} @ {loc}")
    })
}

thread_local! {
    static QUIET: std::cell::Cell<u32> = const { std::cell::Cell::new(0) };
    static LAST_PANIC_LOC: std::cell::RefCell<String> = const { std::cell::RefCell::new(String::new()) };
}

fn install_quiet_hook() {
    use std::sync::Once;
    static ONCE: Once = Once::new();
    ONCE.call_once(|| {
        let default = std::panic::take_hook();
        std::panic::set_hook(Box::new(move |info| {
            let loc = info
                .location()
                .map(|l| format!("{}:{}", l.file(), l.line()))
                .unwrap_or_default();
            LAST_PANIC_LOC.with(|l| *l.borrow_mut() = loc);
            if QUIET.with(|q| q.get()) == 0 {
                default(info);
            }
        }));
    });
}

/// Read a replay file and return its `input`.
pub fn read_replay(path: &Path) -> Value {
    let text = std::fs::read_to_string(path)
        .unwrap_or_else(|e| inconclusive(&format!("cannot read replay {}: {e}", path.display())));
    let v: Value = serde_json::from_str(&text)
        .unwrap_or_else(|e| inconclusive(&format!("replay {} does not parse: {e}", path.display())));
    v
}

/// Monotone index mapping (shrinks towards 0): i in 0..=u16::MAX -> 0..len.
pub fn pick_index(i: u16, len: usize) -> usize {
    if len == 0 {
        return 0;
    }
    ((i as usize) * len) >> 16
}

pub fn num_workers() -> usize {
    std::thread::available_parallelism().map(|n| n.get()).unwrap_or(4).min(16)
}

/// Checked-in regression inputs of a property: `replays/<ID>/regress-*.json` (inputs of repaired
/// defects: must pass) and `replays/<ID>/known-*.json` (inputs of recorded open findings: expected
/// to fail with a listed signature). Returned as (file name, whole replay document).
pub fn regression_inputs(property: &str) -> Vec<(String, Value)> {
    let dir = verif_root().join("replays").join(property);
    let mut out = vec![];
    if let Ok(rd) = std::fs::read_dir(&dir) {
        let mut names: Vec<_> = rd.flatten().map(|e| e.file_name().to_string_lossy().to_string()).collect();
        names.sort();
        for n in names {
            if (n.starts_with("regress-") || n.starts_with("known-")) && n.ends_with(".json") {
                out.push((n.clone(), read_replay(&dir.join(&n))));
            }
        }
    }
    out
}

impl Report {
    /// Run every checked-in regression input through `f` (the same strict case runner a replay
    /// uses). A failure is a violation unless its signature is a listed open finding.
    pub fn run_regressions(&self, f: impl Fn(&Value) -> Result<(), Fail>) {
        for (name, doc) in regression_inputs(&self.property) {
            self.label("regression-input");
            match self.tolerate(f(&doc["input"])) {
                Ok(()) => {}
                Err(fail) => {
                    self.violation(&format!("regression-{name}"), &fail, doc["input"].clone());
                }
            }
        }
    }
}
