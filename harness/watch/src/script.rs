//! The action script: JSON form (the replay format) and helpers.
use serde_json::{Value, json};

use crate::session::{Op, safe_rel};

#[derive(Clone, Debug, PartialEq, Eq, Hash)]
pub struct Script {
    /// files of the project before the watcher starts (relative path, text)
    pub initial: Vec<(String, String)>,
    pub windows: Vec<Vec<Op>>,
}

fn hex(data: &[u8]) -> String {
    data.iter().map(|b| format!("{b:02x}")).collect()
}

fn unhex(s: &str) -> Option<Vec<u8>> {
    if s.len() % 2 != 0 {
        return None;
    }
    (0..s.len() / 2).map(|i| u8::from_str_radix(s.get(2 * i..2 * i + 2)?, 16).ok()).collect()
}

pub fn op_to_json(op: &Op) -> Value {
    match op {
        Op::Write { path, data } => match std::str::from_utf8(data) {
            Ok(t) => json!({"op": "write", "path": path, "text": t}),
            Err(_) => json!({"op": "write", "path": path, "hex": hex(data)}),
        },
        Op::Rm { path } => json!({"op": "rm", "path": path}),
        Op::Mv { from, to } => json!({"op": "mv", "from": from, "to": to}),
        Op::Mkdir { path } => json!({"op": "mkdir", "path": path}),
        Op::Rmrf { path } => json!({"op": "rmrf", "path": path}),
        Op::Gc => json!({"op": "gc"}),
    }
}

pub fn op_from_json(v: &Value) -> Result<Op, String> {
    let s = |k: &str| -> Result<String, String> {
        let p = v[k].as_str().ok_or_else(|| format!("missing {k} in {v}"))?;
        if !safe_rel(p) {
            return Err(format!("unsafe path {p:?}"));
        }
        Ok(p.to_string())
    };
    match v["op"].as_str().unwrap_or("") {
        "write" => {
            let data = if let Some(t) = v["text"].as_str() {
                t.as_bytes().to_vec()
            } else if let Some(h) = v["hex"].as_str() {
                unhex(h).ok_or("bad hex")?
            } else {
                return Err("write needs text or hex".into());
            };
            Ok(Op::Write { path: s("path")?, data })
        }
        "rm" => Ok(Op::Rm { path: s("path")? }),
        "mv" => Ok(Op::Mv { from: s("from")?, to: s("to")? }),
        "mkdir" => Ok(Op::Mkdir { path: s("path")? }),
        "rmrf" => Ok(Op::Rmrf { path: s("path")? }),
        "gc" => Ok(Op::Gc),
        other => Err(format!("unknown op {other:?}")),
    }
}

impl Script {
    pub fn to_json(&self) -> Value {
        json!({
            "initial": self.initial.iter().map(|(p, t)| json!([p, t])).collect::<Vec<_>>(),
            "windows": self.windows.iter().map(|w| w.iter().map(op_to_json).collect::<Vec<_>>()).collect::<Vec<_>>(),
        })
    }

    pub fn from_json(v: &Value) -> Result<Script, String> {
        let mut initial = vec![];
        match v.get("initial").and_then(|i| i.as_array()) {
            Some(arr) => {
                for e in arr {
                    let p = e[0].as_str().ok_or("initial path")?;
                    if !safe_rel(p) {
                        return Err(format!("unsafe path {p:?}"));
                    }
                    initial.push((p.to_string(), e[1].as_str().ok_or("initial text")?.to_string()));
                }
            }
            None => {
                for (p, t) in crate::project::initial_files() {
                    initial.push((p.to_string(), t));
                }
            }
        }
        let mut windows = vec![];
        for w in v["windows"].as_array().ok_or("windows")? {
            let mut ops = vec![];
            for o in w.as_array().ok_or("window")? {
                ops.push(op_from_json(o)?);
            }
            windows.push(ops);
        }
        Ok(Script { initial, windows })
    }
}
