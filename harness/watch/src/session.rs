//! A watch-mode session over a real temp directory, driven through the same debouncer the
//! product builds (`notify_debouncer_full::new_debouncer`, `RecommendedWatcher`,
//! `RecommendedCache`, the paths `create_debounced_file_watcher` watches) with a short timeout and
//! one extra watch on a sentinel directory that serves as a delivery barrier.
use std::collections::BTreeMap;
use std::path::{Path, PathBuf};
use std::sync::mpsc;
use std::time::{Duration, Instant};

use artifact_content::get_artifact_path_and_content;
use common_lang_types::{CurrentWorkingDirectory, Diagnostic};
use graphql_network_protocol::GraphQLAndJavascriptProfile;
use intern::string_key::Intern;
use isograph_compiler::verif::categorize_and_filter_events;
use isograph_compiler::watch::has_config_changes;
use isograph_compiler::{CompilerState, batch_compile::compile, update_sources};
use isograph_config::{CompilerConfig, create_config};
use isograph_schema::IsographDatabase;
use notify::{EventKind, RecommendedWatcher, RecursiveMode};
use notify_debouncer_full::{DebounceEventResult, DebouncedEvent, Debouncer, RecommendedCache, new_debouncer};
use pico::Database;
use vcore::Fail;

pub type Profile = GraphQLAndJavascriptProfile;
pub type Db = IsographDatabase<Profile>;

pub const DEBOUNCE_TIMEOUT: Duration = Duration::from_millis(10);
const BARRIER_WAIT: Duration = Duration::from_secs(10);

/// One file-system action (paths are relative to the project directory) or a garbage collection.
#[derive(Clone, Debug, PartialEq, Eq, Hash)]
pub enum Op {
    Write { path: String, data: Vec<u8> },
    Rm { path: String },
    Mv { from: String, to: String },
    Mkdir { path: String },
    Rmrf { path: String },
    Gc,
}

impl Op {
    /// Creates, renames or moves a directory: notify (re)installs inotify watches for it after the
    /// event was read, so the harness waits for a second barrier before it goes on.
    pub fn touches_directories(&self, root: &Path) -> bool {
        match self {
            Op::Mkdir { .. } => true,
            Op::Mv { from, .. } => root.join(from).is_dir(),
            _ => false,
        }
    }
}

pub fn safe_rel(p: &str) -> bool {
    !p.is_empty() && !p.starts_with('/') && !p.split('/').any(|c| c.is_empty() || c == "." || c == "..")
}

/// What a compile produced: artifacts (relative path -> text) or rendered diagnostics (sorted).
#[derive(Clone, Debug, PartialEq, Eq)]
pub enum Outcome {
    Artifacts(BTreeMap<String, String>),
    Diagnostics(Vec<String>),
    /// `CompilerState::new` failed (a fresh batch compile prints this and exits 1)
    InitError(String),
}

impl Outcome {
    pub fn kind(&self) -> &'static str {
        match self {
            Outcome::Artifacts(_) => "artifacts",
            Outcome::Diagnostics(_) => "diagnostics",
            Outcome::InitError(_) => "init-error",
        }
    }
}

pub fn render_diagnostics(db: &Db, diagnostics: &[Diagnostic], root: &Path) -> Vec<String> {
    let root_s = root.to_string_lossy().to_string();
    let mut v: Vec<String> = diagnostics
        .iter()
        .map(|d| d.printable(db.print_location_fn(false)).to_string().replace(&root_s, "<ROOT>"))
        .collect();
    v.sort();
    v
}

pub fn outcome_of_db(db: &Db, root: &Path) -> Outcome {
    match get_artifact_path_and_content(db) {
        Ok((artifacts, _stats)) => {
            let mut m = BTreeMap::new();
            for a in artifacts {
                let p = match &a.artifact_path.type_and_field {
                    Some(tf) => format!("{}/{}/{}", tf.parent_entity_name, tf.selectable_name, a.artifact_path.file_name),
                    None => format!("{}", a.artifact_path.file_name),
                };
                m.insert(p, a.file_content.0.clone());
            }
            Outcome::Artifacts(m)
        }
        Err(diags) => Outcome::Diagnostics(render_diagnostics(db, &diags, root)),
    }
}

pub fn fresh_state(config: &CompilerConfig, cwd: CurrentWorkingDirectory) -> Result<CompilerState<Profile>, String> {
    CompilerState::new(config.clone(), cwd).map_err(|e| e.to_string())
}

/// A fresh batch compile of what is on disk now (without writing anything).
pub fn fresh_outcome(config: &CompilerConfig, cwd: CurrentWorkingDirectory, root: &Path) -> Outcome {
    match fresh_state(config, cwd) {
        Ok(state) => outcome_of_db(&state.db, root),
        Err(e) => Outcome::InitError(e.replace(&root.to_string_lossy().to_string(), "<ROOT>")),
    }
}

pub fn read_tree(dir: &Path, prefix: &str, out: &mut BTreeMap<String, Vec<u8>>) {
    let Ok(rd) = std::fs::read_dir(dir) else { return };
    for e in rd.flatten() {
        let name = e.file_name().to_string_lossy().to_string();
        let rel = if prefix.is_empty() { name.clone() } else { format!("{prefix}/{name}") };
        let p = e.path();
        if p.is_dir() {
            read_tree(&p, &rel, out);
        } else if let Ok(b) = std::fs::read(&p) {
            out.insert(rel, b);
        }
    }
}

pub fn project_cwd(root: &Path) -> CurrentWorkingDirectory {
    root.to_str().expect("utf8 temp path").intern().into()
}

pub fn write_initial_tree(root: &Path, files: &[(&str, String)]) {
    let _ = std::fs::remove_dir_all(root);
    std::fs::create_dir_all(root).expect("project dir");
    for (rel, text) in files {
        let p = root.join(rel);
        std::fs::create_dir_all(p.parent().unwrap()).expect("mkdir");
        std::fs::write(&p, text).expect("write initial file");
    }
    std::fs::create_dir_all(root.join("sentinel")).expect("sentinel dir");
    std::fs::create_dir_all(root.join("outside")).expect("outside dir");
}

#[derive(Debug)]
pub enum Stop {
    /// the property is violated
    Fail(Fail),
    /// nothing can be concluded from this case (timing guard, barrier timeout, watcher error)
    Inconclusive(String),
}

pub struct WindowReport {
    pub events: Vec<String>,
    pub changes: usize,
    /// `Some(ok)` when the window led to a recompile: did `compile` (incl. writing) succeed
    pub compiled: Option<bool>,
    pub watch: Outcome,
    pub fresh: Outcome,
}

pub struct Session {
    pub root: PathBuf,
    pub config: CompilerConfig,
    pub cwd: CurrentWorkingDirectory,
    pub state: CompilerState<Profile>,
    debouncer: Option<Debouncer<RecommendedWatcher, RecommendedCache>>,
    rx: mpsc::Receiver<DebounceEventResult>,
    sentinel_counter: u64,
    /// names (relative to the artifact directory) of files the harness itself put there
    pub stray: Vec<String>,
    pub verbose: bool,
}

/// `Err(None)`: inotify cannot be initialised (the whole check is inconclusive).
pub fn start_watcher(
    config: &CompilerConfig,
    sentinel_dir: &Path,
) -> Result<(Debouncer<RecommendedWatcher, RecommendedCache>, mpsc::Receiver<DebounceEventResult>), String> {
    let (tx, rx) = mpsc::channel::<DebounceEventResult>();
    let mut watcher = new_debouncer(DEBOUNCE_TIMEOUT, None, move |r: DebounceEventResult| {
        let _ = tx.send(r);
    })
    .map_err(|e| format!("new_debouncer: {e}"))?;
    // exactly the paths and modes of `create_debounced_file_watcher`
    watcher.watch(&config.config_location, RecursiveMode::NonRecursive).map_err(|e| format!("watch config: {e}"))?;
    watcher.watch(&config.project_root, RecursiveMode::Recursive).map_err(|e| format!("watch project root: {e}"))?;
    watcher
        .watch(&config.schema.absolute_path, RecursiveMode::NonRecursive)
        .map_err(|e| format!("watch schema: {e}"))?;
    for extension in &config.schema_extensions {
        watcher
            .watch(&extension.absolute_path, RecursiveMode::NonRecursive)
            .map_err(|e| format!("watch schema extension: {e}"))?;
    }
    // the one addition: the barrier directory
    watcher.watch(sentinel_dir, RecursiveMode::NonRecursive).map_err(|e| format!("watch sentinel: {e}"))?;
    Ok((watcher, rx))
}

fn describe_event(e: &DebouncedEvent, root: &Path) -> String {
    let paths: Vec<String> =
        e.paths.iter().map(|p| p.strip_prefix(root).unwrap_or(p).display().to_string()).collect();
    format!("{:?} {:?}", e.kind, paths)
}

impl Session {
    /// The start of `handle_watch_command`: state, first compile, then the watcher.
    pub fn start(root: &Path, files: &[(&str, String)]) -> Result<Session, Stop> {
        write_initial_tree(root, files);
        let cwd = project_cwd(root);
        let config = create_config(&root.join("isograph.config.json"), cwd);
        let mut state = CompilerState::new(config.clone(), cwd)
            .map_err(|e| Stop::Inconclusive(format!("initial CompilerState::new failed: {e}")))?;
        let _ = compile::<Profile>(&mut state);
        let (debouncer, rx) =
            start_watcher(&config, &root.join("sentinel")).map_err(|e| Stop::Inconclusive(format!("watcher: {e}")))?;
        Ok(Session {
            root: root.to_path_buf(),
            config,
            cwd,
            state,
            debouncer: Some(debouncer),
            rx,
            sentinel_counter: 0,
            stray: vec![],
            verbose: false,
        })
    }

    fn apply(&mut self, op: &Op) -> Result<(), String> {
        let root = &self.root;
        let r = match op {
            Op::Write { path, data } => std::fs::write(root.join(path), data),
            Op::Rm { path } => std::fs::remove_file(root.join(path)),
            Op::Mv { from, to } => std::fs::rename(root.join(from), root.join(to)),
            Op::Mkdir { path } => std::fs::create_dir(root.join(path)),
            Op::Rmrf { path } => std::fs::remove_dir_all(root.join(path)),
            Op::Gc => Ok(()),
        };
        r.map_err(|e| format!("{op:?}: {e}"))
    }

    /// Touch a fresh sentinel file and collect debounced events until its Create event has been
    /// emitted. inotify queues are ordered per instance and the debouncer emits chronologically, so
    /// every event caused by an earlier action has been emitted by then.
    fn barrier(&mut self, collected: &mut Vec<DebouncedEvent>) -> Result<Instant, Stop> {
        self.sentinel_counter += 1;
        let sentinel_dir = self.root.join("sentinel");
        let sentinel = sentinel_dir.join(format!("s{}", self.sentinel_counter));
        std::fs::write(&sentinel, b"").map_err(|e| Stop::Inconclusive(format!("sentinel write: {e}")))?;
        let deadline = Instant::now() + BARRIER_WAIT;
        let mut seen: Option<Instant> = None;
        while seen.is_none() {
            let left = deadline.saturating_duration_since(Instant::now());
            if left.is_zero() {
                return Err(Stop::Inconclusive("barrier-timeout".into()));
            }
            match self.rx.recv_timeout(left) {
                Ok(Ok(events)) => {
                    for e in events {
                        if e.paths.iter().any(|p| p.starts_with(&sentinel_dir)) {
                            if matches!(e.kind, EventKind::Create(_)) && e.paths.iter().any(|p| p == &sentinel) {
                                seen = Some(e.time);
                            }
                            continue;
                        }
                        collected.push(e);
                    }
                }
                Ok(Err(errors)) => {
                    return Err(Stop::Inconclusive(format!(
                        "watcher-error: {}",
                        errors.iter().map(|e| e.to_string()).collect::<Vec<_>>().join("; ")
                    )));
                }
                Err(_) => return Err(Stop::Inconclusive("barrier-timeout".into())),
            }
        }
        let _ = std::fs::remove_file(&sentinel);
        Ok(seen.unwrap())
    }

    /// Apply one window, deliver its events through the product's pipeline (the body of the
    /// `while let Some(res)` loop of `handle_watch_command`) and compare with a fresh compile.
    pub fn window(&mut self, ops: &[Op]) -> Result<WindowReport, Stop> {
        let mut needs_second_barrier = false;
        let mut gc = false;
        let t0 = Instant::now();
        for op in ops {
            if matches!(op, Op::Gc) {
                gc = true;
                continue;
            }
            needs_second_barrier |= op.touches_directories(&self.root);
            if let Err(e) = self.apply(op) {
                return Err(Stop::Inconclusive(format!("script-not-applicable: {e}")));
            }
        }
        let _ = t0;
        let mut events = vec![];
        let sentinel_time = self.barrier(&mut events)?;
        // Determinism guard. What the debouncer merges (create+modify, create+remove, rename
        // stitching) must not depend on timing: it does not as long as no event of the window was
        // emitted before the last one was handed to the debouncer. An event is emitted no earlier
        // than `timeout` after it was added, the sentinel's event was added after every event of
        // the window, and merged events keep the time of their first part; so it is enough that
        // the oldest event that came out is younger than `timeout` at the time the sentinel's
        // event went in. (Events under the artifact directory are the previous compile's own
        // writes; the product filters them out, their merging is irrelevant.)
        let artifact_dir = &self.config.artifact_directory.absolute_path;
        let oldest = events
            .iter()
            .filter(|e| !e.paths.iter().all(|p| p.starts_with(artifact_dir)))
            // Access events (open/close) are caused by reads, also by the reads of the previous
            // fresh compile; the product ignores them and they take no part in merging.
            .filter(|e| !matches!(e.kind, EventKind::Access(_)))
            .map(|e| e.time)
            .min();
        if let Some(oldest) = oldest {
            if sentinel_time.saturating_duration_since(oldest) >= DEBOUNCE_TIMEOUT {
                return Err(Stop::Inconclusive("timing-guard".into()));
            }
        }
        if needs_second_barrier {
            self.barrier(&mut events)?;
        }
        let described: Vec<String> = events.iter().map(|e| describe_event(e, &self.root)).collect();
        if self.verbose {
            for d in &described {
                println!("      event {d}");
            }
        }

        let config = self.config.clone();
        let state = &mut self.state;
        let mut body = || -> Result<(usize, Option<bool>), Stop> {
            let mut n = 0;
            let mut compiled = None;
            if let Some(changes) = categorize_and_filter_events(&events, &config) {
                n = changes.len();
                if has_config_changes(&changes) {
                    return Err(Stop::Inconclusive("config-change-event".into()));
                }
                if let Err(errs) = update_sources(&mut state.db, &changes) {
                    let msg = errs.iter().map(|e| e.to_string()).collect::<Vec<_>>().join("\n");
                    return Err(Stop::Fail(Fail::new(
                        format!("watcher-stops:{}", classify_update_error(&msg)),
                        format!("update_sources returned Err (handle_watch_command returns, the watcher stops):\n{msg}"),
                    )));
                }
                compiled = Some(compile::<Profile>(state).is_ok());
            }
            if gc {
                state.db.run_garbage_collection();
            }
            Ok((n, compiled))
        };
        // VERIF_NO_CATCH: let a panic of the code under test kill the process (with backtrace)
        let processed = if std::env::var("VERIF_NO_CATCH").is_ok() { Ok(body()) } else { vcore::catch_panic(body) };
        let (changes, compiled) = match processed {
            Ok(Ok(n)) => n,
            Ok(Err(stop)) => return Err(stop),
            Err(p) => return Err(Stop::Fail(Fail::new(format!("panic:{}", panic_class(&p)), format!("panic in the watch loop body: {p}")))),
        };

        let root = self.root.clone();
        let watch = match vcore::catch_panic(|| outcome_of_db(&self.state.db, &root)) {
            Ok(o) => o,
            Err(p) => return Err(Stop::Fail(Fail::new(format!("panic:{}", panic_class(&p)), format!("panic computing watch artifacts: {p}")))),
        };
        let cwd = self.cwd;
        let fresh = match vcore::catch_panic(|| fresh_outcome(&config, cwd, &root)) {
            Ok(o) => o,
            // a fresh batch compile that panics is C08's business, not a watch-mode divergence
            Err(p) => return Err(Stop::Inconclusive(format!("fresh-compile-panic: {p}"))),
        };
        Ok(WindowReport { events: described, changes, compiled, watch, fresh })
    }

    /// After a successful recompile the artifact directory holds exactly the artifacts (files the
    /// harness itself dropped there are ignored).
    pub fn disk_artifacts(&self) -> BTreeMap<String, Vec<u8>> {
        let mut m = BTreeMap::new();
        read_tree(&self.config.artifact_directory.absolute_path, "", &mut m);
        for s in &self.stray {
            m.remove(s);
        }
        m
    }

    pub fn stop(mut self) {
        if let Some(d) = self.debouncer.take() {
            d.stop();
        }
    }
}

pub fn classify_update_error(msg: &str) -> &'static str {
    if msg.contains("convert file to utf8") || msg.contains("convert to string") {
        "non-utf8"
    } else if msg.contains("Schema not found") {
        "schema-removed"
    } else if msg.contains("traverse directory") {
        "traverse-directory"
    } else if msg.contains("canonicalize schema path") {
        "schema-unreadable"
    } else if msg.contains("read file") {
        "read-file"
    } else {
        "other"
    }
}

/// A short, input-independent name for a panic: its source location.
pub fn panic_class(p: &str) -> String {
    match p.rsplit_once(" @ ") {
        Some((_, loc)) => loc.rsplit('/').next().unwrap_or(loc).to_string(),
        None => "unknown".to_string(),
    }
}

/// Compare the two outcomes. Returns the mismatch description.
pub fn compare(watch: &Outcome, fresh: &Outcome) -> Option<(String, String)> {
    if watch == fresh {
        return None;
    }
    let kind = match (watch, fresh) {
        (Outcome::Artifacts(_), Outcome::Artifacts(_)) => "artifacts-differ".to_string(),
        (Outcome::Diagnostics(_), Outcome::Diagnostics(_)) => "diagnostics-differ".to_string(),
        (w, f) => format!("watch-{}-fresh-{}", w.kind(), f.kind()),
    };
    let mut msg = String::new();
    match (watch, fresh) {
        (Outcome::Artifacts(w), Outcome::Artifacts(f)) => {
            for k in w.keys().filter(|k| !f.contains_key(*k)).take(8) {
                msg.push_str(&format!("only in watch: {k}\n"));
            }
            for k in f.keys().filter(|k| !w.contains_key(*k)).take(8) {
                msg.push_str(&format!("only in fresh: {k}\n"));
            }
            for (k, v) in w.iter() {
                if let Some(fv) = f.get(k) {
                    if fv != v {
                        msg.push_str(&format!("content differs: {k}\n"));
                    }
                }
            }
        }
        (w, f) => {
            let show = |o: &Outcome| match o {
                Outcome::Artifacts(m) => format!("{} artifacts", m.len()),
                Outcome::Diagnostics(d) => d.join("\n---\n"),
                Outcome::InitError(e) => format!("init error: {e}"),
            };
            msg.push_str(&format!("watch:\n{}\nfresh:\n{}\n", show(w), show(f)));
        }
    }
    Some((kind, msg))
}
