//! Real-process leg of C20: the history is applied under the REAL `isograph_cli --watch`, so the
//! product's own loop (`handle_watch_command`: its debouncer, its error handling around
//! `update_sources`, its order of compile / print / write) is what runs. The in-process leg
//! re-implements the body of that loop and therefore cannot see a change inside it.
//!
//! Observation: the CLI's stderr (`print_result` prints either "Success! Compiled ..." or "Error
//! when compiling") and the artifact directory. Timing is never allowed to decide a verdict: a
//! bounded wait that runs out is an inconclusive window, and every suspected violation is
//! re-examined after a barrier (one more harmless edit whose result must be the only new one).
use std::collections::BTreeMap;
use std::io::{BufRead, BufReader};
use std::path::{Path, PathBuf};
use std::process::{Child, Command, Stdio};
use std::sync::{Arc, Mutex};
use std::time::{Duration, Instant};

use isograph_config::create_config;
use vcore::Fail;

use crate::script::Script;
use crate::session::{Op, Outcome, Stop, classify_update_error, fresh_outcome, project_cwd, read_tree, write_initial_tree};

pub const TICK_FILE: &str = "src/zz_tick.ts";
const QUIET: Duration = Duration::from_millis(400);
const WAIT_RESULT: Duration = Duration::from_secs(10);
const WAIT_QUIET: Duration = Duration::from_secs(15);

#[derive(Default)]
struct Log {
    /// one entry per compile result printed by the CLI: true = "Success!", false = error
    results: Vec<bool>,
    last_result_at: Option<Instant>,
    text: String,
}

pub struct CliWatch {
    child: Child,
    log: Arc<Mutex<Log>>,
    root: PathBuf,
    tick: u64,
}

#[derive(Default, Debug)]
pub struct ProcessStats {
    pub windows: u64,
    pub windows_last_success: u64,
    pub windows_all_errors: u64,
    pub windows_split_batches: u64,
    pub barriers: u64,
    pub resolved_by_barrier: u64,
}

impl Drop for CliWatch {
    fn drop(&mut self) {
        let _ = self.child.kill();
        let _ = self.child.wait();
    }
}

impl CliWatch {
    pub fn spawn(cli: &Path, root: &Path) -> Result<CliWatch, Stop> {
        let mut child = Command::new(cli)
            .arg("--config")
            .arg("./isograph.config.json")
            .arg("--watch")
            .current_dir(root)
            .env("NO_COLOR", "1")
            .env_remove("RUST_LOG")
            .stdin(Stdio::null())
            .stdout(Stdio::null())
            .stderr(Stdio::piped())
            .spawn()
            .map_err(|e| Stop::Inconclusive(format!("cannot start {}: {e}", cli.display())))?;
        let stderr = child.stderr.take().expect("piped stderr");
        let log = Arc::new(Mutex::new(Log::default()));
        let log2 = log.clone();
        std::thread::spawn(move || {
            for line in BufReader::new(stderr).split(b'\n').map_while(Result::ok) {
                let line = String::from_utf8_lossy(&line).to_string();
                let mut g = log2.lock().unwrap();
                if line.contains("Success! Compiled") {
                    g.results.push(true);
                    g.last_result_at = Some(Instant::now());
                } else if line.contains("Error when compiling") {
                    g.results.push(false);
                    g.last_result_at = Some(Instant::now());
                }
                if g.text.len() < 200_000 {
                    g.text.push_str(&line);
                    g.text.push('\n');
                }
            }
        });
        Ok(CliWatch { child, log, root: root.to_path_buf(), tick: 0 })
    }

    fn count(&self) -> usize {
        self.log.lock().unwrap().results.len()
    }

    fn results_since(&self, n: usize) -> Vec<bool> {
        self.log.lock().unwrap().results[n..].to_vec()
    }

    /// The watch process ended: why (from what it printed).
    fn exited(&mut self) -> Option<Fail> {
        match self.child.try_wait() {
            Ok(Some(status)) => {
                // give the reader thread a moment to drain the pipe
                std::thread::sleep(Duration::from_millis(50));
                let text = self.log.lock().unwrap().text.clone();
                let tail: String = text.lines().rev().take(25).collect::<Vec<_>>().into_iter().rev().collect::<Vec<_>>().join("\n");
                let signature = if let Some(i) = text.find("panicked at ") {
                    let loc: String = text[i + 12..].chars().take_while(|c| !c.is_whitespace() && *c != ',').collect();
                    let loc = loc.trim_end_matches(':');
                    let mut parts = loc.rsplitn(3, ':');
                    let _col = parts.next();
                    let line = parts.next().unwrap_or("");
                    let file = parts.next().unwrap_or(loc).rsplit('/').next().unwrap_or("");
                    format!("panic:{file}:{line}")
                } else {
                    format!("watcher-stops:{}", classify_update_error(&text))
                };
                Some(Fail::new(signature, format!("the real `isograph_cli --watch` process exited ({status}); it printed:\n{tail}")))
            }
            _ => None,
        }
    }

    fn write_tick(&mut self) -> Result<(), Stop> {
        self.tick += 1;
        std::fs::write(self.root.join(TICK_FILE), format!("// tick {}\nexport const tick = {};\n", self.tick, self.tick))
            .map_err(|e| Stop::Inconclusive(format!("tick write: {e}")))
    }

    /// Wait until more than `n` results have been printed.
    fn wait_increase(&mut self, n: usize, limit: Duration) -> Result<(), Stop> {
        let deadline = Instant::now() + limit;
        loop {
            if self.count() > n {
                return Ok(());
            }
            if let Some(f) = self.exited() {
                return Err(Stop::Fail(f));
            }
            if Instant::now() >= deadline {
                return Err(Stop::Inconclusive("no-recompile-result-in-time".into()));
            }
            std::thread::sleep(Duration::from_millis(10));
        }
    }

    /// Wait until no result has been printed for `QUIET`.
    fn quiesce(&mut self) -> Result<(), Stop> {
        let deadline = Instant::now() + WAIT_QUIET;
        loop {
            if let Some(f) = self.exited() {
                return Err(Stop::Fail(f));
            }
            let last = self.log.lock().unwrap().last_result_at;
            if last.is_none_or(|t| t.elapsed() >= QUIET) {
                return Ok(());
            }
            if Instant::now() >= deadline {
                return Err(Stop::Inconclusive("never-quiet".into()));
            }
            std::thread::sleep(Duration::from_millis(20));
        }
    }

    /// One more harmless edit; the product handles event batches one after the other, so when its
    /// result is there every earlier batch has been handled. Returns how many results came.
    fn barrier(&mut self) -> Result<usize, Stop> {
        let n = self.count();
        self.write_tick()?;
        self.wait_increase(n, WAIT_RESULT)?;
        self.quiesce()?;
        Ok(self.count() - n)
    }
}

fn snapshot(artifact_dir: &Path, stray: &[String]) -> BTreeMap<String, Vec<u8>> {
    let mut m = BTreeMap::new();
    read_tree(artifact_dir, "", &mut m);
    for s in stray {
        m.remove(s);
    }
    m
}

fn describe_diff(a: &BTreeMap<String, Vec<u8>>, b: &BTreeMap<String, Vec<u8>>, an: &str, bn: &str) -> String {
    let mut msg = String::new();
    for k in a.keys().filter(|k| !b.contains_key(*k)).take(8) {
        msg.push_str(&format!("only {an}: {k}\n"));
    }
    for k in b.keys().filter(|k| !a.contains_key(*k)).take(8) {
        msg.push_str(&format!("only {bn}: {k}\n"));
    }
    for (k, v) in a {
        if b.get(k).is_some_and(|w| w != v) {
            msg.push_str(&format!("differs: {k}\n"));
        }
    }
    msg
}

/// Run one history under the real CLI. `stray`: names (relative to the artifact directory) of
/// files the harness itself may drop there.
pub fn run_under_cli(script: &Script, root: &Path, cli: &Path, stray: &[String], verbose: bool, stats: &mut ProcessStats) -> Result<(), Stop> {
    let mut files: Vec<(&str, String)> = script.initial.iter().map(|(p, t)| (p.as_str(), t.clone())).collect();
    files.push((TICK_FILE, "// tick 0\nexport const tick = 0;\n".to_string()));
    write_initial_tree(root, &files);
    let cwd = project_cwd(root);
    let config = create_config(&root.join("isograph.config.json"), cwd);
    let artifact_dir = config.artifact_directory.absolute_path.clone();

    let mut cli = CliWatch::spawn(cli, root)?;
    // the first compile of `handle_watch_command`
    cli.wait_increase(0, Duration::from_secs(30)).map_err(|s| match s {
        Stop::Inconclusive(_) => Stop::Inconclusive("cli-did-not-start-in-time".into()),
        other => other,
    })?;
    // Handshake: the loop that handles events starts only after every watch is installed, so a
    // result for an edit proves the watcher is complete. Edits made before that are lost: retry.
    let mut ready = false;
    for _ in 0..40 {
        let n = cli.count();
        cli.write_tick()?;
        match cli.wait_increase(n, Duration::from_millis(500)) {
            Ok(()) => {
                ready = true;
                break;
            }
            Err(Stop::Inconclusive(_)) => continue,
            Err(other) => return Err(other),
        }
    }
    if !ready {
        return Err(Stop::Inconclusive("watcher-not-ready".into()));
    }
    cli.quiesce()?;

    for (i, w) in script.windows.iter().enumerate() {
        let before = snapshot(&artifact_dir, stray);
        let n0 = cli.count();
        // back to back, so that the actions normally share one debounce batch (not relied upon)
        for op in w {
            let r = match op {
                Op::Write { path, data } => std::fs::write(root.join(path), data),
                Op::Rm { path } => std::fs::remove_file(root.join(path)),
                Op::Mv { from, to } => std::fs::rename(root.join(from), root.join(to)),
                Op::Mkdir { path } => std::fs::create_dir(root.join(path)),
                Op::Rmrf { path } => std::fs::remove_dir_all(root.join(path)),
                Op::Gc => Ok(()),
            };
            if let Err(e) = r {
                return Err(Stop::Inconclusive(format!("script-not-applicable: {op:?}: {e}")));
            }
        }
        // a harmless edit, so that a recompile follows whatever the window contained
        cli.write_tick()?;
        cli.wait_increase(n0, WAIT_RESULT)?;
        cli.quiesce()?;
        let results = cli.results_since(n0);
        stats.windows += 1;
        if verbose {
            println!("   process window {i}: results {results:?}");
        }
        let last_ok = *results.last().expect("at least one result");
        if !last_ok {
            if results.iter().any(|r| *r) {
                // a successful recompile of a part of the window wrote artifacts, then a failing
                // one followed: nothing can be said about the failing one
                stats.windows_split_batches += 1;
                continue;
            }
            stats.windows_all_errors += 1;
            // C17's clause for watch mode: a recompile that reports an error leaves the artifact
            // directory untouched
            let after = snapshot(&artifact_dir, stray);
            if after != before {
                stats.barriers += 1;
                // a batch whose result was printed while the snapshot was taken, or that is still
                // being compiled, shows up as an extra result
                let seen_meanwhile = cli.count() - (n0 + results.len());
                let extra = cli.barrier()?;
                if extra != 1 || seen_meanwhile != 0 {
                    // a late batch of this window was still in flight
                    stats.resolved_by_barrier += 1;
                    return Err(Stop::Inconclusive("late-batch-after-failed-recompile".into()));
                }
                return Err(Stop::Fail(Fail::new(
                    "failed-recompile-modified-artifacts",
                    format!(
                        "(this is C17's clause for watch mode, observed under the real `isograph_cli --watch`) window {i}: every \
                         recompile of the window reported an error ({} result(s)), yet the artifact directory changed:\n{}",
                        results.len(),
                        describe_diff(&before, &after, "before", "after")
                    ),
                )));
            }
            continue;
        }
        stats.windows_last_success += 1;
        // the last recompile succeeded: the directory holds what a fresh compile produces
        let check = |root: &Path| -> Result<(), (String, String)> {
            match fresh_outcome(&config, cwd, root) {
                Outcome::Artifacts(expected) => {
                    let expected: BTreeMap<String, Vec<u8>> =
                        expected.into_iter().filter(|(k, _)| !stray.contains(k)).map(|(k, v)| (k, v.into_bytes())).collect();
                    let disk = snapshot(&artifact_dir, stray);
                    if disk == expected {
                        Ok(())
                    } else {
                        Err(("diverge:artifact-folder".into(), describe_diff(&disk, &expected, "in the watch process' folder", "in a fresh compile")))
                    }
                }
                other => Err((
                    format!("diverge:watch-success-fresh-{}", other.kind()),
                    match other {
                        Outcome::Diagnostics(d) => d.join("\n---\n"),
                        Outcome::InitError(e) => e,
                        Outcome::Artifacts(_) => String::new(),
                    },
                )),
            }
        };
        let first = match vcore::catch_panic(|| check(root)) {
            Ok(r) => r,
            Err(p) => return Err(Stop::Inconclusive(format!("fresh-compile-panic: {p}"))),
        };
        if first.is_err() {
            // re-examine after a barrier: a process that was merely behind has caught up by then
            stats.barriers += 1;
            cli.barrier()?;
            let last_ok = cli.log.lock().unwrap().results.last().copied().unwrap_or(false);
            let second = match vcore::catch_panic(|| check(root)) {
                Ok(r) => r,
                Err(p) => return Err(Stop::Inconclusive(format!("fresh-compile-panic: {p}"))),
            };
            match second {
                Ok(()) => {
                    stats.resolved_by_barrier += 1;
                    return Err(Stop::Inconclusive("watch-process-was-behind".into()));
                }
                Err((sig, msg)) if last_ok => {
                    return Err(Stop::Fail(Fail::new(
                        sig,
                        format!("window {i} (real `isograph_cli --watch`, confirmed after one more recompile): the last recompile succeeded but\n{msg}"),
                    )));
                }
                Err(_) => return Err(Stop::Inconclusive("result-changed-during-confirmation".into())),
            }
        }
    }
    Ok(())
}
