//! Generated histories. A proptest strategy produces an *abstract* script (selectors into a small
//! universe of paths and into "whatever exists now"); `resolve` turns it, against a pure model of
//! the tree, into the concrete action script that is executed and that is the replay format.
//! Resolution also applies the generator switches: actions that would trigger a recorded open
//! finding are dropped (and counted), as are actions whose events are inherently racy.
use std::collections::{BTreeMap, BTreeSet};

use proptest::prelude::*;

use crate::project::{self, Unit};
use crate::script::Script;
use crate::session::Op;

/// Folders of the universe, relative to the project directory. `src/a` / `src/ab` share a name
/// prefix; `src/a/__isograph` is a folder that merely has the artifact folder's name.
pub const DIRS: [&str; 9] =
    ["src", "src/a", "src/ab", "src/a/b", "src/c", "src/a/__isograph", "outside", "outside/d", "outside/e"];
/// File names. `x.ts` / `x.tsx` share a prefix; `.txt`, `.md`, `.bin` are not source files.
pub const NAMES: [&str; 8] = ["x.ts", "x.tsx", "y.tsx", "z.js", "x.txt", "notes.md", "blob.bin", "home.ts"];
pub const STRAYS: [&str; 2] = ["src/__isograph/stray.ts", "src/__isograph/notes.md"];

pub const TAG_NON_UTF8_SOURCE: &str = "non-utf8-source";
pub const TAG_SCHEMA_FILE_REPLACED: &str = "schema-file-replaced";
/// A source file without iso literals that was written since the start and then went through a
/// compile that failed on a schema / extension syntax error is removed (deleted, renamed, moved).
pub const TAG_REMOVED_SOURCE_REVERIFIED: &str = "removed-source-reverified";
/// Within one window a file or folder is created (or is the target of a rename) and then it, or
/// the folder it is in, is moved away: the event for the created path is processed when the path
/// no longer exists.
pub const TAG_PATH_VANISHED: &str = "path-vanished-before-processing";
/// Within one window a file is renamed (or moved in) and the new name is then deleted: the
/// debouncer delivers only the Remove of the new name, or nothing at all when the file was moved
/// in over an existing one.
pub const TAG_RENAME_THEN_REMOVE: &str = "rename-then-remove";
pub const ALL_TAGS: [&str; 5] =
    [TAG_NON_UTF8_SOURCE, TAG_SCHEMA_FILE_REPLACED, TAG_REMOVED_SOURCE_REVERIFIED, TAG_PATH_VANISHED, TAG_RENAME_THEN_REMOVE];

/// What the earlier actions of the current window did (for the two same-window findings).
#[derive(Default, Clone, Debug)]
pub struct WindowCtx {
    /// paths that came into existence in this window (new files, new folders, rename targets)
    pub fresh: BTreeSet<String>,
    pub rename_targets: BTreeSet<String>,
    /// folders created in this window: whether notify already watches them when something is
    /// moved into them is a race, so a move into them may look like a move out of the tree
    pub fresh_dirs: BTreeSet<String>,
}

impl WindowCtx {
    pub fn tags(&self, op: &Op) -> Vec<&'static str> {
        let mut tags = vec![];
        match op {
            Op::Mv { from, to } => {
                // a rename target that is renamed again: the debouncer folds the chain into one
                // rename (x -> y -> x becomes "x renamed to x"), whatever the first rename overwrote
                // is never reported as removed
                if self.rename_targets.contains(from) || self.rename_targets.contains(to) {
                    tags.push(TAG_RENAME_THEN_REMOVE);
                }
                let leaves_tree = !under(to, "src") || self.fresh_dirs.iter().any(|d| under(to, d));
                if self.fresh.iter().any(|f| (f != from && under(f, from)) || (f == from && leaves_tree)) {
                    tags.push(TAG_PATH_VANISHED);
                }
            }
            Op::Rm { path } | Op::Rmrf { path } => {
                if self.rename_targets.iter().any(|t| under(t, path)) {
                    tags.push(TAG_RENAME_THEN_REMOVE);
                }
            }
            _ => {}
        }
        tags
    }

    pub fn record(&mut self, model_before: &Model, op: &Op) {
        match op {
            Op::Write { path, .. } if !model_before.files.contains_key(path) && under(path, "src") => {
                self.fresh.insert(path.clone());
            }
            Op::Mkdir { path } if under(path, "src") => {
                self.fresh.insert(path.clone());
                self.fresh_dirs.insert(path.clone());
            }
            Op::Mv { from, to } => {
                // the names below a moved folder are new as well, but anything below a moved folder
                // is kept out of the rest of the window anyway
                self.fresh.retain(|f| !under(f, from));
                self.rename_targets.retain(|f| !under(f, from));
                if under(to, "src") {
                    if model_before.dirs.contains(from) {
                        self.fresh_dirs.insert(to.clone());
                    }
                    self.fresh.insert(to.clone());
                    self.rename_targets.insert(to.clone());
                }
            }
            Op::Rm { path } | Op::Rmrf { path } => {
                self.fresh.retain(|f| !under(f, path));
                self.rename_targets.retain(|f| !under(f, path));
            }
            _ => {}
        }
    }
}
/// Not a C20 finding: when one `Type.field` is defined in two source files, which definition wins
/// (and hence every diagnostic) depends on HashMap iteration order and differs between two fresh
/// compiles as well (C14's business). Such trees are kept out of the domain.
pub const EXCLUDED_DUPLICATE_DEFINITION: &str = "not-c20:duplicate-definition-across-files(order-dependent,C14)";

#[derive(Clone, Debug, PartialEq, Eq, Hash)]
pub enum Content {
    Source(Vec<Unit>),
    /// text that is not JavaScript; `true`: it nevertheless contains an iso literal
    Text(bool, u8),
    Binary(u8),
}

impl Content {
    pub fn bytes(&self) -> Vec<u8> {
        match self {
            Content::Source(units) => project::render_source(units).into_bytes(),
            Content::Text(with_literal, k) => {
                let mut s = format!("notes {k}\n");
                if *with_literal {
                    s.push_str(&project::render_unit(&Unit::Field {
                        ty: 1,
                        name: 4,
                        component: false,
                        sels: vec![project::Sel::Scalar(1)],
                    }));
                }
                s.into_bytes()
            }
            Content::Binary(k) => vec![0x89, b'P', b'N', b'G', 0xff, 0xfe, *k, 0x00, 0xc3, 0x28],
        }
    }
}

#[derive(Clone, Debug, PartialEq, Eq, Hash)]
pub enum AOp {
    /// create or overwrite <folder>/NAMES[name]; the folder is DIRS[dir] or, for odd `dir`, an
    /// existing folder picked by `dir`
    Write { dir: u16, name: u8, content: Content },
    /// overwrite an existing file
    Modify { pick: u16, content: Content },
    Delete { pick: u16 },
    /// rename/move an existing file to <folder>/NAMES[name] (folder chosen as for `Write`)
    MoveFile { pick: u16, dir: u16, name: u8 },
    Mkdir { dir: u8 },
    RmDir { pick: u16 },
    /// rename/move an existing folder to DIRS[dir]
    MoveDir { pick: u16, dir: u8 },
    Schema { variant: u8 },
    Ext { variant: u8 },
    /// editor-style atomic save: write a temp file next to it, rename it over the file
    ReplaceSchemaFile { ext: bool, variant: u8 },
    Stray { which: u8, content: Option<Content> },
    Gc,
}

pub type AScript = Vec<Vec<AOp>>;

fn content() -> impl Strategy<Value = Content> {
    prop_oneof![
        12 => project::units().prop_map(Content::Source),
        2 => (any::<bool>(), 0u8..4).prop_map(|(b, k)| Content::Text(b, k)),
        2 => (0u8..4).prop_map(Content::Binary),
    ]
}

fn aop() -> impl Strategy<Value = AOp> {
    let d = 0u8..DIRS.len() as u8;
    let n = 0u8..NAMES.len() as u8;
    prop_oneof![
        8 => (any::<u16>(), n.clone(), content()).prop_map(|(dir, name, content)| AOp::Write { dir, name, content }),
        6 => (any::<u16>(), content()).prop_map(|(pick, content)| AOp::Modify { pick, content }),
        4 => any::<u16>().prop_map(|pick| AOp::Delete { pick }),
        6 => (any::<u16>(), any::<u16>(), n).prop_map(|(pick, dir, name)| AOp::MoveFile { pick, dir, name }),
        4 => d.clone().prop_map(|dir| AOp::Mkdir { dir }),
        3 => any::<u16>().prop_map(|pick| AOp::RmDir { pick }),
        5 => (any::<u16>(), d).prop_map(|(pick, dir)| AOp::MoveDir { pick, dir }),
        3 => (0u8..project::SCHEMA_VARIANTS as u8).prop_map(|variant| AOp::Schema { variant }),
        3 => (0u8..project::EXT_VARIANTS as u8).prop_map(|variant| AOp::Ext { variant }),
        1 => (any::<bool>(), 0u8..4).prop_map(|(ext, variant)| AOp::ReplaceSchemaFile { ext, variant }),
        2 => (0u8..2, prop::option::of(content())).prop_map(|(which, content)| AOp::Stray { which, content }),
        2 => Just(AOp::Gc),
    ]
}

pub fn ascript(max_windows: usize) -> impl Strategy<Value = AScript> {
    prop::collection::vec(prop::collection::vec(aop(), 1..4), 1..max_windows + 1)
}

/// Pure model of the tree under the project directory (only what the harness itself creates).
#[derive(Clone, Debug, Default)]
pub struct Model {
    pub dirs: BTreeSet<String>,
    pub files: BTreeMap<String, Vec<u8>>,
    /// source files written since the start whose content has no (uncommented) iso literal
    pub literal_free_touched: BTreeSet<String>,
    /// ... that were in that state when a schema / extension syntax error was written
    pub poisoned: BTreeSet<String>,
}

pub fn literal_free(data: &[u8]) -> bool {
    match std::str::from_utf8(data) {
        Ok(t) => !t.lines().filter(|l| !l.trim_start().starts_with("//")).any(|l| l.contains("iso(`") || l.contains("iso`")),
        Err(_) => true,
    }
}

fn is_broken_schema_text(path: &str, data: &[u8]) -> bool {
    let broken = if path == "schema.graphql" {
        project::schema_text(4)
    } else if path == "ext.graphql" {
        project::ext_text(3)
    } else {
        return false;
    };
    data == broken.as_bytes()
}

fn parent(p: &str) -> &str {
    p.rsplit_once('/').map(|(a, _)| a).unwrap_or("")
}

pub fn under(p: &str, dir: &str) -> bool {
    p == dir || (p.len() > dir.len() && p.starts_with(dir) && p.as_bytes()[dir.len()] == b'/')
}

/// The product's notion of a source file (extension, not inside anything named `__isograph`),
/// restricted to the project root.
pub fn is_source_path(p: &str) -> bool {
    under(p, "src")
        && !p.contains("__isograph")
        && matches!(p.rsplit_once('.').map(|(_, e)| e), Some("ts") | Some("tsx") | Some("js") | Some("jsx"))
}

impl Model {
    pub fn from_initial(initial: &[(String, String)]) -> Model {
        let mut m = Model::default();
        for d in ["outside", "sentinel", "src", "src/__isograph"] {
            m.dirs.insert(d.to_string());
        }
        for (p, t) in initial {
            let mut cur = parent(p);
            while !cur.is_empty() {
                m.dirs.insert(cur.to_string());
                cur = parent(cur);
            }
            m.files.insert(p.clone(), t.as_bytes().to_vec());
        }
        m
    }

    fn exists(&self, p: &str) -> bool {
        self.dirs.contains(p) || self.files.contains_key(p)
    }

    /// files the generator may pick: everything under src (except the artifact folder) and outside
    fn pickable_files(&self) -> Vec<String> {
        self.files
            .keys()
            .filter(|p| (under(p, "src") && !under(p, "src/__isograph")) || under(p, "outside"))
            .cloned()
            .collect()
    }

    /// A folder for a new file: a universe folder (which may not exist) or an existing one.
    fn folder(&self, sel: u16) -> String {
        if sel % 4 == 0 {
            return DIRS[(sel / 4) as usize % DIRS.len()].to_string();
        }
        let existing: Vec<&String> = self
            .dirs
            .iter()
            .filter(|p| (under(p, "src") && !under(p, "src/__isograph")) || under(p, "outside"))
            .collect();
        existing[vcore::pick_index(sel, existing.len())].clone()
    }

    fn pickable_dirs(&self) -> Vec<String> {
        self.dirs
            .iter()
            .filter(|p| (under(p, "src") && !under(p, "src/__isograph") && *p != "src") || (under(p, "outside") && *p != "outside"))
            .cloned()
            .collect()
    }

    pub fn apply(&mut self, op: &Op) {
        match op {
            Op::Write { path, data } => {
                self.files.insert(path.clone(), data.clone());
                if is_source_path(path) {
                    if literal_free(data) {
                        self.literal_free_touched.insert(path.clone());
                    } else {
                        self.literal_free_touched.remove(path);
                        self.poisoned.remove(path);
                    }
                }
                if is_broken_schema_text(path, data) {
                    self.poisoned.extend(self.literal_free_touched.iter().cloned());
                }
            }
            Op::Rm { path } => {
                self.files.remove(path);
                self.literal_free_touched.remove(path);
                self.poisoned.remove(path);
            }
            Op::Mkdir { path } => {
                self.dirs.insert(path.clone());
            }
            Op::Rmrf { path } => {
                self.dirs.retain(|d| !under(d, path));
                self.files.retain(|f, _| !under(f, path));
                self.literal_free_touched.retain(|f| !under(f, path));
                self.poisoned.retain(|f| !under(f, path));
            }
            Op::Mv { from, to } => {
                self.literal_free_touched.retain(|f| !under(f, from));
                self.poisoned.retain(|f| !under(f, from));
                if let Some(data) = self.files.remove(from) {
                    if is_source_path(to) && literal_free(&data) {
                        self.literal_free_touched.insert(to.clone());
                    } else {
                        self.literal_free_touched.remove(to);
                        self.poisoned.remove(to);
                    }
                    self.files.insert(to.clone(), data);
                } else {
                    let moved_dirs: Vec<String> = self.dirs.iter().filter(|d| under(d, from)).cloned().collect();
                    for d in moved_dirs {
                        self.dirs.remove(&d);
                        self.dirs.insert(format!("{to}{}", &d[from.len()..]));
                    }
                    let moved_files: Vec<String> = self.files.keys().filter(|f| under(f, from)).cloned().collect();
                    for f in moved_files {
                        let data = self.files.remove(&f).unwrap();
                        let new = format!("{to}{}", &f[from.len()..]);
                        if is_source_path(&new) && literal_free(&data) {
                            self.literal_free_touched.insert(new.clone());
                        }
                        self.files.insert(new, data);
                    }
                }
            }
            Op::Gc => {}
        }
    }

    /// Is some `Type.field` defined (textually: `field Type.field`), or some entrypoint declared, in
    /// two different source files?
    pub fn has_cross_file_duplicate(&self) -> bool {
        let mut seen: BTreeMap<String, &String> = BTreeMap::new();
        for (p, d) in &self.files {
            if !is_source_path(p) {
                continue;
            }
            let Ok(text) = std::str::from_utf8(d) else { continue };
            let occurrences = text
                .match_indices("field ")
                .map(|(i, _)| ("field", i + 6))
                .chain(text.match_indices("entrypoint ").map(|(i, _)| ("entrypoint", i + 11)));
            for (what, at) in occurrences {
                let name: String = text[at..].chars().take_while(|c| c.is_ascii_alphanumeric() || *c == '.' || *c == '_').collect();
                let name = format!("{what} {name}");
                if name.contains('.') {
                    if let Some(other) = seen.get(&name) {
                        if *other != p {
                            return true;
                        }
                    } else {
                        seen.insert(name, p);
                    }
                }
            }
        }
        false
    }

    fn has_non_utf8_source(&self) -> bool {
        self.files.iter().any(|(p, d)| is_source_path(p) && std::str::from_utf8(d).is_err())
    }
}

#[derive(Default, Debug, Clone)]
pub struct ResolveStats {
    /// finding tag -> number of actions dropped because of it
    pub excluded: BTreeMap<String, u64>,
    /// other reasons an abstract action produced nothing
    pub dropped: BTreeMap<String, u64>,
    pub labels: BTreeSet<&'static str>,
}

fn pick<'a>(v: &'a [String], i: u16) -> Option<&'a String> {
    if v.is_empty() { None } else { Some(&v[vcore::pick_index(i, v.len())]) }
}

/// Tags (names of recorded findings) an action would trigger when applied to `model`.
pub fn tags_of(model: &Model, ops: &[Op]) -> Vec<&'static str> {
    let mut tags = vec![];
    let mut m = model.clone();
    for op in ops {
        if let Op::Mv { to, .. } = op {
            if to == "schema.graphql" || to == "ext.graphql" {
                tags.push(TAG_SCHEMA_FILE_REPLACED);
            }
        }
        if let Op::Rm { path } = op {
            if path == "schema.graphql" || path == "ext.graphql" {
                tags.push(TAG_SCHEMA_FILE_REPLACED);
            }
        }
        let removed: Option<&String> = match op {
            Op::Rm { path } | Op::Rmrf { path } => Some(path),
            Op::Mv { from, .. } => Some(from),
            _ => None,
        };
        if let Some(r) = removed {
            if m.poisoned.iter().any(|f| under(f, r)) {
                tags.push(TAG_REMOVED_SOURCE_REVERIFIED);
            }
        }
        m.apply(op);
    }
    if !model.has_non_utf8_source() && m.has_non_utf8_source() {
        tags.push(TAG_NON_UTF8_SOURCE);
    }
    tags
}

/// Turn the abstract script into concrete windows. `exclude`: finding tags whose triggers are
/// dropped by construction.
pub fn resolve(a: &AScript, exclude: &BTreeSet<String>) -> (Script, ResolveStats) {
    let initial: Vec<(String, String)> =
        project::initial_files().into_iter().map(|(p, t)| (p.to_string(), t)).collect();
    let mut model = Model::from_initial(&initial);
    let mut stats = ResolveStats::default();
    let mut windows = vec![];
    for w in a {
        let mut ops: Vec<Op> = vec![];
        // folders renamed/moved in this window (old and new path): notify re-registers their
        // watches asynchronously, events for anything below them are racy until the next barrier
        let mut moved_dirs: Vec<String> = vec![];
        let mut ctx = WindowCtx::default();
        for aop in w {
            let drop = |why: &str, stats: &mut ResolveStats| {
                *stats.dropped.entry(why.to_string()).or_insert(0) += 1;
            };
            let candidate: Vec<Op> = match aop {
                AOp::Write { dir, name, content } => {
                    let d = model.folder(*dir);
                    let d = d.as_str();
                    let p = format!("{d}/{}", NAMES[*name as usize % NAMES.len()]);
                    if !model.dirs.contains(d) || model.dirs.contains(&p) {
                        drop("write:no-such-folder", &mut stats);
                        continue;
                    }
                    vec![Op::Write { path: p, data: content.bytes() }]
                }
                AOp::Modify { pick: i, content } => match pick(&model.pickable_files(), *i) {
                    Some(p) => vec![Op::Write { path: p.clone(), data: content.bytes() }],
                    None => {
                        drop("modify:no-file", &mut stats);
                        continue;
                    }
                },
                AOp::Delete { pick: i } => match pick(&model.pickable_files(), *i) {
                    Some(p) => vec![Op::Rm { path: p.clone() }],
                    None => {
                        drop("delete:no-file", &mut stats);
                        continue;
                    }
                },
                AOp::MoveFile { pick: i, dir, name } => {
                    let d = model.folder(*dir);
                    let d = d.as_str();
                    let to = format!("{d}/{}", NAMES[*name as usize % NAMES.len()]);
                    match pick(&model.pickable_files(), *i) {
                        Some(from) if model.dirs.contains(d) && !model.dirs.contains(&to) && *from != to => {
                            vec![Op::Mv { from: from.clone(), to }]
                        }
                        _ => {
                            drop("move-file:not-applicable", &mut stats);
                            continue;
                        }
                    }
                }
                AOp::Mkdir { dir } => {
                    let d = DIRS[*dir as usize % DIRS.len()];
                    if model.exists(d) || !model.dirs.contains(parent(d)) {
                        drop("mkdir:not-applicable", &mut stats);
                        continue;
                    }
                    vec![Op::Mkdir { path: d.to_string() }]
                }
                AOp::RmDir { pick: i } => match pick(&model.pickable_dirs(), *i) {
                    Some(p) => vec![Op::Rmrf { path: p.clone() }],
                    None => {
                        drop("rmdir:no-folder", &mut stats);
                        continue;
                    }
                },
                AOp::MoveDir { pick: i, dir } => {
                    let to = DIRS[*dir as usize % DIRS.len()];
                    match pick(&model.pickable_dirs(), *i) {
                        Some(from)
                            if !model.exists(to)
                                && model.dirs.contains(parent(to))
                                && !under(to, from)
                                && to != "src"
                                && to != "outside" =>
                        {
                            vec![Op::Mv { from: from.clone(), to: to.to_string() }]
                        }
                        _ => {
                            drop("move-folder:not-applicable", &mut stats);
                            continue;
                        }
                    }
                }
                AOp::Schema { variant } => {
                    vec![Op::Write { path: "schema.graphql".into(), data: project::schema_text(*variant as usize).into_bytes() }]
                }
                AOp::Ext { variant } => {
                    vec![Op::Write { path: "ext.graphql".into(), data: project::ext_text(*variant as usize).into_bytes() }]
                }
                AOp::ReplaceSchemaFile { ext, variant } => {
                    let (tmp, target, text) = if *ext {
                        ("ext.tmp", "ext.graphql", project::ext_text(*variant as usize))
                    } else {
                        ("schema.tmp", "schema.graphql", project::schema_text(*variant as usize))
                    };
                    vec![
                        Op::Write { path: tmp.into(), data: text.into_bytes() },
                        Op::Mv { from: tmp.into(), to: target.into() },
                    ]
                }
                AOp::Stray { which, content } => {
                    let p = STRAYS[*which as usize % STRAYS.len()].to_string();
                    match content {
                        Some(c) => vec![Op::Write { path: p, data: c.bytes() }],
                        None if model.files.contains_key(&p) => vec![Op::Rm { path: p }],
                        None => {
                            drop("stray:nothing-to-delete", &mut stats);
                            continue;
                        }
                    }
                }
                AOp::Gc => vec![Op::Gc],
            };
            // racy: anything below a folder that was renamed/moved earlier in this window
            let touches_moved = candidate.iter().any(|op| {
                let paths: Vec<&String> = match op {
                    Op::Write { path, .. } | Op::Rm { path } | Op::Mkdir { path } | Op::Rmrf { path } => vec![path],
                    Op::Mv { from, to } => vec![from, to],
                    Op::Gc => vec![],
                };
                paths.iter().any(|p| moved_dirs.iter().any(|d| under(p, d)))
            });
            if touches_moved {
                drop("racy:below-folder-moved-in-same-window", &mut stats);
                continue;
            }
            {
                let mut after = model.clone();
                for op in &candidate {
                    after.apply(op);
                }
                if after.has_cross_file_duplicate() {
                    *stats.excluded.entry(EXCLUDED_DUPLICATE_DEFINITION.to_string()).or_insert(0) += 1;
                    continue;
                }
            }
            let mut tags = tags_of(&model, &candidate);
            {
                let (mut c, mut m) = (ctx.clone(), model.clone());
                for op in &candidate {
                    tags.extend(c.tags(op));
                    c.record(&m, op);
                    m.apply(op);
                }
            }
            if let Some(t) = tags.iter().find(|t| exclude.contains(**t)) {
                *stats.excluded.entry(t.to_string()).or_insert(0) += 1;
                continue;
            }
            for op in &candidate {
                if let Op::Mv { from, to } = op {
                    if model.dirs.contains(from) {
                        moved_dirs.push(from.clone());
                        moved_dirs.push(to.clone());
                    }
                }
                classify(&model, op, &mut stats.labels);
                ctx.record(&model, op);
                model.apply(op);
            }
            ops.extend(candidate);
        }
        if !ops.is_empty() {
            windows.push(ops);
        }
    }
    (Script { initial, windows }, stats)
}

fn classify(model: &Model, op: &Op, labels: &mut BTreeSet<&'static str>) {
    let watched = |p: &str| under(p, "src");
    match op {
        Op::Write { path, data } => {
            if path == "schema.graphql" {
                labels.insert("op:schema-edit");
            } else if path == "ext.graphql" {
                labels.insert("op:extension-edit");
            } else if under(path, "src/__isograph") {
                labels.insert("op:file-in-artifact-folder");
            } else if watched(path) {
                labels.insert(if model.files.contains_key(path) { "op:modify-file" } else { "op:create-file" });
                if !is_source_path(path) {
                    labels.insert("op:non-source-file");
                }
                if path.contains("__isograph") {
                    labels.insert("op:file-in-folder-named-__isograph");
                }
                if std::str::from_utf8(data).is_err() {
                    labels.insert("op:non-utf8-file");
                }
            } else {
                labels.insert("op:write-outside");
            }
        }
        Op::Rm { path } => {
            if watched(path) {
                labels.insert("op:delete-file");
                let sibling = model.files.keys().any(|f| f != path && f.starts_with(path.as_str()));
                if sibling {
                    labels.insert("op:delete-file-with-prefix-sibling");
                }
            }
        }
        Op::Mkdir { path } => {
            if watched(path) {
                labels.insert("op:create-folder");
            }
        }
        Op::Rmrf { path } => {
            if watched(path) {
                labels.insert("op:delete-folder");
                if model.files.keys().any(|f| is_source_path(f) && !under(f, path) && f.starts_with(path.as_str())) {
                    labels.insert("op:delete-folder-with-prefix-sibling");
                }
            }
        }
        Op::Mv { from, to } => {
            let dir = model.dirs.contains(from);
            match (watched(from), watched(to), dir) {
                (true, true, false) => {
                    labels.insert("op:rename-file");
                    match (is_source_path(from), is_source_path(to)) {
                        (true, false) => labels.insert("op:rename-source-to-non-source"),
                        (false, true) => labels.insert("op:rename-non-source-to-source"),
                        _ => false,
                    };
                    if model.files.contains_key(to) {
                        labels.insert("op:rename-over-existing-file");
                    }
                }
                (true, false, false) => {
                    labels.insert("op:move-file-out");
                }
                (false, true, false) => {
                    labels.insert("op:move-file-in");
                }
                (true, true, true) => {
                    labels.insert("op:rename-folder");
                    if model.files.keys().any(|f| is_source_path(f) && !under(f, from) && f.starts_with(from.as_str())) {
                        labels.insert("op:rename-folder-with-prefix-sibling");
                    }
                }
                (true, false, true) => {
                    labels.insert("op:move-folder-out");
                }
                (false, true, true) => {
                    labels.insert("op:move-folder-in");
                }
                _ => {
                    if to == "schema.graphql" || to == "ext.graphql" {
                        labels.insert("op:schema-file-replaced");
                    }
                }
            }
        }
        Op::Gc => {
            labels.insert("op:gc");
        }
    }
}

/// Non-trivial by the stated rule: the script contains a folder operation, a rename, or a write
/// of a non-source file below the project root.
pub fn nontrivial(labels: &BTreeSet<&'static str>) -> bool {
    labels.iter().any(|l| {
        l.contains("folder") || l.contains("rename") || l.contains("move-") || *l == "op:non-source-file" || *l == "op:non-utf8-file"
    })
}

/// Labels and tags of a concrete script (used for replays and for signatures).
pub fn analyse(script: &Script) -> (BTreeSet<&'static str>, BTreeSet<&'static str>) {
    let mut model = Model::from_initial(&script.initial);
    let mut labels = BTreeSet::new();
    let mut tags = BTreeSet::new();
    for w in &script.windows {
        let mut ctx = WindowCtx::default();
        for op in w {
            for t in tags_of(&model, std::slice::from_ref(op)) {
                tags.insert(t);
            }
            for t in ctx.tags(op) {
                tags.insert(t);
            }
            classify(&model, op, &mut labels);
            ctx.record(&model, op);
            model.apply(op);
        }
    }
    (labels, tags)
}
