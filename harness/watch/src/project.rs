//! A compact local project generator: a small fixed schema family plus generated client fields and
//! entrypoints spread over a few files. Deliberately simple constructs only (no arguments, no
//! variables, no cycles between client fields) so that the defects owned by other properties
//! (parser panics C07, recursion overflow C08) stay out of the way.
use proptest::prelude::*;

pub const CONFIG_JSON: &str = r#"{
  "project_root": "./src",
  "schema": "./schema.graphql",
  "schema_extensions": ["./ext.graphql"],
  "options": { "on_invalid_id_type": "error" }
}
"#;

pub const SCHEMA_VARIANTS: usize = 5;
pub const EXT_VARIANTS: usize = 4;

/// Schema family. 0 = base, 1 = +User.email, 2 = -User.age, 3 = Pet.nickname -> Pet.title,
/// 4 = syntactically broken.
pub fn schema_text(variant: usize) -> String {
    let user_extra = match variant {
        1 => "  age: Int\n  email: String\n",
        2 => "",
        _ => "  age: Int\n",
    };
    let pet_name = if variant == 3 { "title" } else { "nickname" };
    let mut s = format!(
        "type Query {{\n  me: User\n  users: [User!]!\n  version: String\n}}\n\n\
         interface Node {{\n  id: ID!\n}}\n\n\
         type User implements Node {{\n  id: ID!\n  name: String\n{user_extra}  bestFriend: User\n  pets: [Pet!]!\n}}\n\n\
         type Pet implements Node {{\n  id: ID!\n  {pet_name}: String\n  owner: User\n}}\n"
    );
    if variant == 4 {
        s.push_str("\ntype Broken {\n");
    }
    s
}

/// Schema extension family. 0 = comment only, 1 = User.localFlag, 2 = Pet.isGood, 3 = broken.
pub fn ext_text(variant: usize) -> String {
    match variant {
        1 => "extend type User {\n  localFlag: Boolean\n}\n".to_string(),
        2 => "extend type Pet {\n  isGood: Boolean\n}\n".to_string(),
        3 => "extend type User {\n  localFlag: \n".to_string(),
        _ => "# no extensions\n".to_string(),
    }
}

pub const TYPES: [&str; 3] = ["Query", "User", "Pet"];
pub const FIELD_NAMES: [&str; 5] = ["F0", "F1", "F2", "F3", "F4"];

#[derive(Clone, Debug, PartialEq, Eq, Hash)]
pub enum Sel {
    /// index into the scalar pool of the type in scope
    Scalar(u8),
    /// index into the linked-field pool of the type in scope
    Linked(u8, Vec<Sel>),
    /// a client field `F<j>`; only j < the index of the enclosing field is rendered (no cycles)
    Client(u8),
    /// a field that exists on no type
    Unknown,
}

#[derive(Clone, Debug, PartialEq, Eq, Hash)]
pub enum Unit {
    Field { ty: u8, name: u8, component: bool, sels: Vec<Sel> },
    Entrypoint { name: u8 },
    /// syntactically broken literal
    Broken,
    /// a literal commented out with `// `
    Commented { name: u8 },
    /// plain JavaScript without literals
    Plain(u8),
}

fn scalars(ty: usize) -> &'static [&'static str] {
    match ty {
        0 => &["version"],
        1 => &["id", "name", "age", "email", "localFlag"],
        _ => &["id", "nickname", "title", "isGood"],
    }
}

/// (field name, target type index)
fn linked(ty: usize) -> &'static [(&'static str, usize)] {
    match ty {
        0 => &[("me", 1), ("users", 1)],
        1 => &[("bestFriend", 1), ("pets", 2)],
        _ => &[("owner", 1)],
    }
}

fn render_sels(out: &mut String, sels: &[Sel], ty: usize, self_index: usize, indent: usize) {
    let pad = "  ".repeat(indent);
    let mut any = false;
    for s in sels {
        match s {
            Sel::Scalar(i) => {
                let pool = scalars(ty);
                out.push_str(&format!("{pad}{}\n", pool[*i as usize % pool.len()]));
                any = true;
            }
            Sel::Linked(i, sub) => {
                let pool = linked(ty);
                let (name, target) = pool[*i as usize % pool.len()];
                out.push_str(&format!("{pad}{name} {{\n"));
                render_sels(out, sub, target, self_index, indent + 1);
                out.push_str(&format!("{pad}}}\n"));
                any = true;
            }
            Sel::Client(j) => {
                if self_index > 0 {
                    let j = *j as usize % self_index;
                    out.push_str(&format!("{pad}{}\n", FIELD_NAMES[j]));
                    any = true;
                }
            }
            Sel::Unknown => {
                out.push_str(&format!("{pad}nope\n"));
                any = true;
            }
        }
    }
    if !any {
        // an empty selection set is a parse error of its own; keep units well-formed by default
        let pool = scalars(ty);
        out.push_str(&format!("{pad}{}\n", pool[0]));
    }
}

pub fn render_unit(u: &Unit) -> String {
    match u {
        Unit::Field { ty, name, component, sels } => {
            let ty = *ty as usize % TYPES.len();
            let idx = *name as usize % FIELD_NAMES.len();
            let mut body = String::new();
            render_sels(&mut body, sels, ty, idx, 2);
            format!(
                "export const {t}_{n} = iso(`\n  field {t}.{n}{c} {{\n{body}  }}\n`)(function {t}{n}Impl(data) {{\n  return null;\n}});\n",
                t = TYPES[ty],
                n = FIELD_NAMES[idx],
                c = if *component { " @component" } else { "" },
            )
        }
        Unit::Entrypoint { name } => {
            let idx = *name as usize % FIELD_NAMES.len();
            format!("export const ep{idx} = () => useLazyReference(iso(`entrypoint Query.{}`), {{}});\n", FIELD_NAMES[idx])
        }
        Unit::Broken => "export const broken = iso(`\n  field User. {\n`)(() => null);\n".to_string(),
        Unit::Commented { name } => {
            let idx = *name as usize % FIELD_NAMES.len();
            format!("// export const c = iso(`field User.{} {{ id }}`)(() => null);\n", FIELD_NAMES[idx])
        }
        Unit::Plain(k) => format!("export const k{k} = {k};\n"),
    }
}

pub fn render_source(units: &[Unit]) -> String {
    let mut s = String::from("import { iso } from '@iso';\n\n");
    for u in units {
        s.push_str(&render_unit(u));
        s.push('\n');
    }
    s
}

fn sel_leaf() -> impl Strategy<Value = Sel> {
    prop_oneof![
        6 => (0u8..5).prop_map(Sel::Scalar),
        2 => (0u8..5).prop_map(Sel::Client),
        1 => Just(Sel::Unknown),
    ]
}

pub fn sel() -> impl Strategy<Value = Sel> {
    prop_oneof![
        5 => sel_leaf(),
        2 => ((0u8..2), prop::collection::vec(sel_leaf(), 1..3)).prop_map(|(i, s)| Sel::Linked(i, s)),
    ]
}

pub fn unit() -> impl Strategy<Value = Unit> {
    prop_oneof![
        10 => ((0u8..3), (0u8..5), any::<bool>(), prop::collection::vec(sel(), 1..4))
            .prop_map(|(ty, name, component, sels)| Unit::Field { ty, name, component, sels }),
        4 => (0u8..5).prop_map(|name| Unit::Entrypoint { name }),
        1 => Just(Unit::Broken),
        1 => (0u8..5).prop_map(|name| Unit::Commented { name }),
        1 => (0u8..4).prop_map(Unit::Plain),
    ]
}

pub fn units() -> impl Strategy<Value = Vec<Unit>> {
    prop::collection::vec(unit(), 0..4)
}

/// The files every generated project starts with (relative path, text). Two sibling folders that
/// share a name prefix, one literal per file, one entrypoint, everything valid under schema 0 and
/// no file depending on another (removing any of them leaves a valid project).
pub fn initial_files() -> Vec<(&'static str, String)> {
    let f = |ty, name, sels: Vec<Sel>| Unit::Field { ty, name, component: false, sels };
    vec![
        ("isograph.config.json", CONFIG_JSON.to_string()),
        ("schema.graphql", schema_text(0)),
        ("ext.graphql", ext_text(0)),
        (
            "src/home.ts",
            render_source(&[
                f(0, 1, vec![Sel::Scalar(0), Sel::Linked(0, vec![Sel::Scalar(1)])]),
                Unit::Entrypoint { name: 1 },
            ]),
        ),
        ("src/a/x.ts", render_source(&[f(1, 0, vec![Sel::Scalar(1), Sel::Scalar(2)])])),
        ("src/ab/x.ts", render_source(&[f(2, 0, vec![Sel::Scalar(1)])])),
        ("src/a/notes.md", "# notes\nnothing to see\n".to_string()),
        // not under the project root (not compiled, not watched): material for moves into the tree
        ("outside/n.tsx", render_source(&[f(2, 4, vec![Sel::Scalar(0)])])),
        ("outside/d/m.ts", render_source(&[f(1, 4, vec![Sel::Scalar(0), Sel::Linked(1, vec![Sel::Scalar(1)])])])),
    ]
}
