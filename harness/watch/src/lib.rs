pub mod histories;
pub mod process;
pub mod project;
pub mod script;
pub mod session;
