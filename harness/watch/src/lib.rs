pub mod histories;
pub mod project;
pub mod script;
pub mod session;
