//! C20 — watch mode produces what a fresh batch compile would, and keeps running.
//!
//! Domain: histories of windows of 1-3 file-system actions on a small tree under the project root
//! (see `gen.rs`), interleaved with garbage collections, applied to a real directory and delivered
//! by the real notify watcher + debouncer (see `session.rs`).
//! Oracle (differential): after every window the artifacts and diagnostics computed from the
//! long-lived watch-mode state equal those of a fresh `CompilerState` on the files now on disk;
//! after a successful recompile the artifact folder on disk holds exactly those artifacts;
//! `update_sources` never returns `Err` (the watch loop would return) and nothing panics.
use std::collections::{BTreeMap, BTreeSet};
use std::path::PathBuf;
use std::sync::atomic::{AtomicUsize, Ordering};

use serde_json::{Value, json};
use vcore::{Args, Fail, Report};
use watch::histories::{self as hist, ALL_TAGS};
use watch::script::{Script, op_to_json};
use watch::process::{ProcessStats, run_under_cli};
use watch::session::{Op, Outcome, Session, Stop, compare};

static NEXT_WORKER: AtomicUsize = AtomicUsize::new(0);
thread_local! {
    static WORKER: usize = NEXT_WORKER.fetch_add(1, Ordering::SeqCst);
}

/// One directory per worker thread, reused for every case (keeps the set of interned paths small).
fn worker_root(base: &std::path::Path) -> PathBuf {
    base.join(format!("w{}", WORKER.with(|w| *w))).join("p")
}

#[derive(Default)]
struct CaseStats {
    windows: u64,
    recompiles: u64,
    outcome_kinds: BTreeMap<&'static str, u64>,
    event_kinds: BTreeSet<String>,
}

fn run_script_once(script: &Script, root: &std::path::Path, verbose: bool, stats: &mut CaseStats) -> Result<(), Stop> {
    let files: Vec<(&str, String)> = script.initial.iter().map(|(p, t)| (p.as_str(), t.clone())).collect();
    let mut s = Session::start(root, &files)?;
    s.verbose = verbose;
    s.stray = hist::STRAYS.iter().map(|p| p.trim_start_matches("src/__isograph/").to_string()).collect();
    let mut result = Ok(());
    for (i, w) in script.windows.iter().enumerate() {
        if verbose {
            println!("window {i}: {}", w.iter().map(|o| op_to_json(o).to_string()).collect::<Vec<_>>().join(" ; "));
        }
        match s.window(w) {
            Ok(rep) => {
                stats.windows += 1;
                if rep.compiled.is_some() {
                    stats.recompiles += 1;
                }
                *stats.outcome_kinds.entry(rep.fresh.kind()).or_insert(0) += 1;
                for e in &rep.events {
                    let kind = e.split(' ').next().unwrap_or("").to_string();
                    if !kind.starts_with("Access") {
                        stats.event_kinds.insert(kind);
                    }
                }
                if verbose {
                    println!("      changes={} compiled={:?} watch={} fresh={}", rep.changes, rep.compiled, rep.watch.kind(), rep.fresh.kind());
                }
                if let Some((kind, msg)) = compare(&rep.watch, &rep.fresh) {
                    result = Err(Stop::Fail(Fail::new(format!("diverge:{kind}"), format!("after window {i}: {kind}\n{msg}"))));
                    break;
                }
                if let (Some(ok), Outcome::Artifacts(expected)) = (rep.compiled, &rep.watch) {
                    if !ok {
                        result = Err(Stop::Fail(Fail::new(
                            "diverge:artifact-write-error",
                            format!("after window {i}: artifacts were computed but compile() failed while writing them"),
                        )));
                        break;
                    }
                    let disk = s.disk_artifacts();
                    let expected: BTreeMap<String, Vec<u8>> =
                        expected.iter().filter(|(k, _)| !s.stray.contains(k)).map(|(k, v)| (k.clone(), v.clone().into_bytes())).collect();
                    if disk != expected {
                        let mut msg = format!("after window {i}: the artifact folder differs from the artifacts of the recompile\n");
                        for k in disk.keys().filter(|k| !expected.contains_key(*k)).take(8) {
                            msg.push_str(&format!("only on disk: {k}\n"));
                        }
                        for k in expected.keys().filter(|k| !disk.contains_key(*k)).take(8) {
                            msg.push_str(&format!("missing on disk: {k}\n"));
                        }
                        for (k, v) in &expected {
                            if disk.get(k).is_some_and(|d| d != v) {
                                msg.push_str(&format!("stale on disk: {k}\n"));
                            }
                        }
                        result = Err(Stop::Fail(Fail::new("diverge:artifact-folder", msg)));
                        break;
                    }
                }
            }
            Err(stop) => {
                result = Err(stop);
                break;
            }
        }
    }
    s.stop();
    result
}

/// Run a script; a case stopped by the timing guard is re-run from scratch (a few times).
fn run_script(script: &Script, root: &std::path::Path, verbose: bool, stats: &mut CaseStats, retries: &mut u64) -> Result<(), Stop> {
    let mut last = Ok(());
    for _attempt in 0..4 {
        let mut st = CaseStats::default();
        last = run_script_once(script, root, verbose, &mut st);
        match &last {
            Err(Stop::Inconclusive(why)) if why == "timing-guard" || why == "barrier-timeout" => {
                *retries += 1;
                continue;
            }
            _ => {
                *stats = st;
                return last;
            }
        }
    }
    last
}

/// Root-cause signature: the effect plus the recorded-finding triggers the script contains (if
/// any), otherwise the detail of the effect.
static OPEN_TAGS: std::sync::OnceLock<BTreeSet<String>> = std::sync::OnceLock::new();

/// The generator switches that belong to a finding that is still open (a switch of a repaired
/// finding no longer names anything).
fn open_tags(report: &Report) -> BTreeSet<String> {
    ALL_TAGS
        .iter()
        .filter(|tag| {
            report.known_findings().iter().any(|k| {
                k.signature.split(':').nth(1).is_some_and(|t| t.split('+').any(|x| x == **tag)) || k.what.contains(&format!("[switch: {tag}]"))
            })
        })
        .map(|t| t.to_string())
        .collect()
}

fn sign(fail: Fail, script: &Script) -> Fail {
    let (_, tags) = hist::analyse(script);
    let open = OPEN_TAGS.get().cloned().unwrap_or_default();
    let tags: BTreeSet<&'static str> = tags.into_iter().filter(|t| open.contains(*t)).collect();
    // a panic is named by where it is raised, whatever the script contains
    if tags.is_empty() || fail.signature.starts_with("panic:") {
        return fail;
    }
    let effect = fail.signature.split(':').next().unwrap_or("diverge").to_string();
    let tags: Vec<&str> = tags.into_iter().collect();
    Fail::new(format!("{effect}:{}", tags.join("+")), format!("[{}] {}", fail.signature, fail.message))
}

/// Signature of a failure of the real-process leg: only "the watch process ended" is named by the
/// recorded-finding triggers of the script (as in the in-process leg).
fn sign_process(fail: Fail, script: &Script) -> Fail {
    if fail.signature.starts_with("watcher-stops:") { sign(fail, script) } else { fail }
}

fn strays() -> Vec<String> {
    hist::STRAYS.iter().map(|p| p.trim_start_matches("src/__isograph/").to_string()).collect()
}

fn cli_or_inconclusive() -> PathBuf {
    let cli = vcore::cli_path();
    if !cli.is_file() {
        vcore::inconclusive(&format!("{} is missing (./check builds it: pre=[\"cli\"])", cli.display()));
    }
    cli
}

/// The shape the in-process leg cannot judge: one window that makes a source file unreadable
/// (invalid UTF-8) AND contains a valid edit that changes the artifacts.
fn unreadable_plus_valid_edit(k: u8) -> Vec<Op> {
    let valid = format!(
        "import {{ iso }} from '@iso';\n\nexport const Pet_Z{k} = iso(`\n  field Pet.Z{k} {{\n    id\n  }}\n`)(function PetZ{k}Impl(data) {{\n  return null;\n}});\n"
    );
    vec![
        Op::Write { path: "src/vendor.js".into(), data: vec![b'/', b'/', b' ', 0xff, 0xfe, 0xfa, k, b'\n'] },
        Op::Write { path: "src/zz_valid.ts".into(), data: valid.into_bytes() },
    ]
}

fn exclusions(report: &Report) -> BTreeSet<String> {
    let include: Vec<String> =
        std::env::var("VERIF_C20_INCLUDE").unwrap_or_default().split(',').map(|s| s.trim().to_string()).collect();
    // a finding names the generator switches that keep it out either in its signature
    // (`effect:tag+tag`) or in its text (`[switch: tag]`)
    open_tags(report).into_iter().filter(|tag| !include.iter().any(|i| i == tag || i == "all")).collect()
}

fn inotify_probe(base: &std::path::Path) -> Result<(), String> {
    let root = base.join("probe/p");
    let script = Script {
        initial: watch::project::initial_files().into_iter().map(|(p, t)| (p.to_string(), t)).collect(),
        windows: vec![vec![watch::session::Op::Write { path: "src/a/probe.ts".into(), data: b"export const k = 1;\n".to_vec() }]],
    };
    let mut st = CaseStats::default();
    let mut retries = 0;
    match run_script(&script, &root, false, &mut st, &mut retries) {
        Ok(()) if st.event_kinds.iter().any(|k| k.starts_with("Create")) => Ok(()),
        Ok(()) => Err("the watcher delivered no Create event for a created file".into()),
        Err(Stop::Inconclusive(w)) => Err(w),
        Err(Stop::Fail(f)) => Err(format!("probe failed: {} {}", f.signature, f.message)),
    }
}

/// `vcore::run_prop_parallel` with a smaller shrink budget (a case costs ~0.1 s of real waiting).
fn run_parallel<S, F, M>(report: &Report, name: &str, cases: u32, workers: usize, shrink_iters: u32, make: M, f: F) -> Option<(S::Value, Fail)>
where
    S: proptest::strategy::Strategy,
    S::Value: Clone + Send,
    M: Fn() -> S + Sync,
    F: Fn(&S::Value) -> Result<(), Fail> + Sync,
{
    use proptest::test_runner::{TestCaseError, TestError, TestRunner};
    let per = cases.div_ceil(workers as u32).max(1);
    let mut results: Vec<Option<(S::Value, Fail)>> = vec![];
    std::thread::scope(|scope| {
        let handles: Vec<_> = (0..workers)
            .map(|w| {
                let (make, f) = (&make, &f);
                let seed = vcore::derive_seed(report.seed, name, w as u64);
                scope.spawn(move || {
                    let mut config = vcore::proptest_config(seed, per);
                    config.max_shrink_iters = shrink_iters;
                    let mut runner = TestRunner::new(config);
                    let last: std::sync::Mutex<Option<Fail>> = std::sync::Mutex::new(None);
                    let result = runner.run(&make(), |v| match report.tolerate(f(&v)) {
                        Ok(()) => Ok(()),
                        Err(fail) => {
                            report.freeze();
                            let msg = fail.signature.clone();
                            *last.lock().unwrap() = Some(fail);
                            Err(TestCaseError::fail(msg))
                        }
                    });
                    match result {
                        Ok(()) => None,
                        Err(TestError::Fail(_, value)) => {
                            let fail = match report.tolerate(f(&value)) {
                                Err(fail) => fail,
                                Ok(()) => last.lock().unwrap().clone().unwrap_or_else(|| Fail::new("flaky", "did not reproduce")),
                            };
                            Some((value, fail))
                        }
                        Err(TestError::Abort(reason)) => {
                            report.note_inconclusive(&format!("proptest aborted: {reason}"));
                            None
                        }
                    }
                })
            })
            .collect();
        for h in handles {
            results.push(h.join().unwrap_or_else(|_| vcore::inconclusive("a harness worker thread panicked")));
        }
    });
    results.into_iter().flatten().next()
}

fn main() {
    let args: Args = vcore::parse_args();
    if args.property != "C20" {
        vcore::inconclusive(&format!("watch: unknown property {}", args.property));
    }
    let report = Report::new(
        &args,
        "exploration",
        "histories of 1-6 windows of 1-3 file-system actions (create/modify/delete/rename/move of files and folders, \
         prefix-sibling folders and files, .md/.txt/binary files, files in folders named __isograph and in the artifact \
         folder, schema and extension edits, garbage collections) delivered by the real inotify watcher + debouncer; \
         non-trivial = the history contains a folder operation, a rename/move, or a non-source or non-UTF-8 file below \
         the project root; distinct by the concrete action script",
    );
    report.engine("stateful");
    report.engine("inproc");
    report.engine("real notify 7 RecommendedWatcher (inotify) + notify-debouncer-full 0.4, 10 ms timeout, sentinel barrier");
    report.assumption("Linux inotify as observed in this sandbox; other platforms' event streams are not covered");
    report.assumption(
        "a fresh batch compile is CompilerState::new + get_artifact_path_and_content on the same directory; what it would \
         write is compared with the watch process' artifact folder after each successful recompile (files the harness itself \
         dropped into the artifact folder are ignored: C18's business)",
    );
    report.assumption("events of a window are handed to update_sources as one batch after all actions of the window were applied");
    let verbose = std::env::var("VERIF_VERBOSE").is_ok();
    let _ = OPEN_TAGS.set(open_tags(&report));
    if args.rest.iter().any(|a| a == "--print-initial") {
        let init: Vec<Value> = watch::project::initial_files().into_iter().map(|(p, t)| json!([p, t])).collect();
        println!("{}", serde_json::to_string(&init).unwrap());
        std::process::exit(0);
    }
    let base = vcore::scratch_base();

    if let Some(path) = &args.replay {
        let v = vcore::read_replay(path);
        let script = Script::from_json(&v["input"]).unwrap_or_else(|e| vcore::inconclusive(&format!("bad replay: {e}")));
        let mut st = CaseStats::default();
        let mut retries = 0;
        let (labels, _) = hist::analyse(&script);
        report.case(if hist::nontrivial(&labels) { Some(&script) } else { None }, &["replay"]);
        report.case(Some("replay-marker"), &[]);
        let outcome = if v["input"]["leg"] == "process" {
            let mut ps = ProcessStats::default();
            let r = run_under_cli(&script, &worker_root(&base), &cli_or_inconclusive(), &strays(), verbose, &mut ps);
            st.windows = ps.windows;
            r.map_err(|s| match s {
                Stop::Fail(f) => Stop::Fail(sign_process(f, &script)),
                other => other,
            })
        } else {
            run_script(&script, &worker_root(&base), verbose, &mut st, &mut retries).map_err(|s| match s {
                Stop::Fail(f) => Stop::Fail(sign(f, &script)),
                other => other,
            })
        };
        match outcome {
            Ok(()) => println!("replay: held ({} windows)", st.windows),
            Err(Stop::Fail(f)) => {
                report.violation("replay", &f, v["input"].clone());
            }
            Err(Stop::Inconclusive(w)) => {
                report.note_inconclusive(&w);
                vcore::inconclusive(&format!("replay could not be decided: {w}"));
            }
        }
        report.finish();
    }

    // inotify must deliver events on the scratch file system (tmpfs normally); otherwise fall back to
    // a directory next to the build output (never /tmp); if that fails too the check is inconclusive
    let mut fallback: Option<PathBuf> = None;
    let base = match inotify_probe(&base) {
        Ok(()) => base,
        Err(first) => {
            let alt = vcore::verif_root().join("harness/target/scratch").join(format!("verif-scratch-watch-{}", std::process::id()));
            let _ = std::fs::create_dir_all(&alt);
            match inotify_probe(&alt) {
                Ok(()) => {
                    report.label("scratch:fallback-under-harness-target");
                    fallback = Some(alt.clone());
                    alt
                }
                Err(second) => {
                    let _ = std::fs::remove_dir_all(&alt);
                    vcore::inconclusive(&format!(
                        "inotify watcher not usable: on {}: {first}; on {}: {second}",
                        base.display(),
                        alt.display()
                    ));
                }
            }
        }
    };

    // checked-in inputs first: regress-* must hold, known-* must fail with their listed signature
    report.run_regressions(|input| {
        let script = Script::from_json(input).map_err(|e| Fail::new("bad-regression-input", e))?;
        let mut st = CaseStats::default();
        let mut retries = 0;
        if input["leg"] == "process" {
            let mut ps = ProcessStats::default();
            return match run_under_cli(&script, &worker_root(&base), &cli_or_inconclusive(), &strays(), false, &mut ps) {
                Ok(()) => Ok(()),
                Err(Stop::Fail(f)) => Err(sign_process(f, &script)),
                Err(Stop::Inconclusive(w)) => {
                    report.label(&format!("inconclusive-regression:{w}"));
                    Ok(())
                }
            };
        }
        match run_script(&script, &worker_root(&base), false, &mut st, &mut retries) {
            Ok(()) => Ok(()),
            Err(Stop::Fail(f)) => Err(sign(f, &script)),
            Err(Stop::Inconclusive(w)) => {
                report.label(&format!("inconclusive-regression:{w}"));
                Ok(())
            }
        }
    });

    let exclude = exclusions(&report);
    report.extra("excluded_tags", json!(exclude));
    let sequences = args.tier.pick(1600u32, 48000u32);
    let workers = vcore::num_workers();
    let inconclusive = std::sync::Mutex::new(BTreeMap::<String, u64>::new());
    let totals = std::sync::Mutex::new((0u64, 0u64, 0u64)); // windows, recompiles, retries
    let found = run_parallel(
        &report,
        "histories",
        sequences,
        workers,
        200,
        || hist::ascript(6),
        |a: &hist::AScript| {
            let (script, rs) = hist::resolve(a, &exclude);
            for (k, n) in &rs.excluded {
                for _ in 0..*n {
                    report.excluded(k);
                }
            }
            for (k, n) in &rs.dropped {
                report.label_n(&format!("dropped:{k}"), *n);
            }
            if script.windows.is_empty() {
                report.case::<str>(None, &["empty-after-resolution"]);
                return Ok(());
            }
            let mut st = CaseStats::default();
            let mut retries = 0;
            let r = run_script(&script, &worker_root(&base), false, &mut st, &mut retries);
            {
                let mut t = totals.lock().unwrap();
                t.0 += st.windows;
                t.1 += st.recompiles;
                t.2 += retries;
            }
            let mut labels: Vec<&str> = rs.labels.iter().copied().collect();
            let kinds: Vec<String> = st.event_kinds.iter().map(|k| format!("event:{k}")).collect();
            labels.extend(kinds.iter().map(|s| s.as_str()));
            match r {
                Ok(()) => {
                    for (k, n) in &st.outcome_kinds {
                        report.label_n(&format!("window-outcome:{k}"), *n);
                    }
                    report.case(if hist::nontrivial(&rs.labels) { Some(&script) } else { None }, &labels);
                    report.sample(if hist::nontrivial(&rs.labels) { "nontrivial" } else { "trivial" }, 2, || script.to_json());
                    Ok(())
                }
                Err(Stop::Inconclusive(w)) => {
                    *inconclusive.lock().unwrap().entry(w).or_insert(0) += 1;
                    report.case::<str>(None, &["inconclusive-case"]);
                    Ok(())
                }
                Err(Stop::Fail(f)) => {
                    report.case(if hist::nontrivial(&rs.labels) { Some(&script) } else { None }, &labels);
                    Err(sign(f, &script))
                }
            }
        },
    );
    if let Some((a, fail)) = found {
        let (script, _) = hist::resolve(&a, &exclude);
        report.violation("histories", &fail, script.to_json());
    }
    report.unfreeze();

    // ---- real-process leg: the same kind of histories under the real `isograph_cli --watch` ----
    if report.violation_count() == 0 {
        report.engine("subproc: real `isograph_cli --watch` (the product's own loop, 100 ms debounce), observed through stderr and the artifact folder");
        report.assumption(
            "real-process leg: a window whose recompiles were split into a successful and a failing batch, a bounded wait that runs out, \
             and a suspicion that disappears after one more recompile are inconclusive windows (counted), never violations",
        );
        let cli = cli_or_inconclusive();
        let stray = strays();
        let histories = args.tier.pick(60u32, 1200u32);
        let pstats = std::sync::Mutex::new(ProcessStats::default());
        let pinconclusive = std::sync::Mutex::new(BTreeMap::<String, u64>::new());
        let build = |a: &(hist::AScript, bool, u8)| -> Script {
            let (mut script, _) = hist::resolve(&a.0, &exclude);
            script.windows.truncate(4);
            if a.1 {
                script.windows.truncate(3);
                script.windows.push(unreadable_plus_valid_edit(a.2));
            }
            script
        };
        let found = run_parallel(
            &report,
            "process-histories",
            histories,
            workers,
            // a case costs seconds of real waiting
            8,
            || (hist::ascript(4), proptest::bool::weighted(0.5), 0u8..200),
            |a: &(hist::AScript, bool, u8)| {
                let script = build(a);
                if script.windows.is_empty() {
                    report.case::<str>(None, &["process:empty-after-resolution"]);
                    return Ok(());
                }
                let mut ps = ProcessStats::default();
                let r = run_under_cli(&script, &worker_root(&base), &cli, &stray, false, &mut ps);
                {
                    let mut t = pstats.lock().unwrap();
                    t.windows += ps.windows;
                    t.windows_last_success += ps.windows_last_success;
                    t.windows_all_errors += ps.windows_all_errors;
                    t.windows_split_batches += ps.windows_split_batches;
                    t.barriers += ps.barriers;
                    t.resolved_by_barrier += ps.resolved_by_barrier;
                }
                let mut labels = vec!["process:history"];
                if a.1 {
                    labels.push("process:unreadable-file+valid-edit-in-one-window");
                }
                report.case(Some(&("process", &script)), &labels);
                report.sample("process", 2, || {
                    let mut j = script.to_json();
                    j["leg"] = json!("process");
                    j
                });
                match r {
                    Ok(()) => Ok(()),
                    Err(Stop::Inconclusive(w)) => {
                        *pinconclusive.lock().unwrap().entry(w).or_insert(0) += 1;
                        Ok(())
                    }
                    Err(Stop::Fail(f)) => Err(sign_process(f, &script)),
                }
            },
        );
        if let Some((a, fail)) = found {
            // proptest gets only a few shrink steps here; try the last window on its own
            let mut script = build(&a);
            let mut fail = fail;
            if script.windows.len() > 1 {
                let alone = Script { initial: script.initial.clone(), windows: vec![script.windows.last().unwrap().clone()] };
                let mut ps = ProcessStats::default();
                if let Err(Stop::Fail(f)) = run_under_cli(&alone, &worker_root(&base), &cli, &stray, false, &mut ps) {
                    let f = sign_process(f, &alone);
                    if f.signature == fail.signature {
                        script = alone;
                        fail = f;
                    }
                }
            }
            let mut j = script.to_json();
            j["leg"] = json!("process");
            report.violation("process-histories", &fail, j);
        }
        report.unfreeze();
        let t = pstats.lock().unwrap();
        report.extra(
            "process_leg",
            json!({
                "histories": histories,
                "windows_judged": t.windows,
                "windows_last_recompile_succeeded": t.windows_last_success,
                "windows_every_recompile_failed": t.windows_all_errors,
                "windows_split_into_success_and_failure (not judged)": t.windows_split_batches,
                "suspicions_re_examined_after_a_barrier": t.barriers,
                "of_which_timing (inconclusive)": t.resolved_by_barrier,
                "inconclusive_histories": *pinconclusive.lock().unwrap(),
            }),
        );
    }

    let t = totals.lock().unwrap();
    report.extra("windows_executed", json!(t.0));
    report.extra("recompiles", json!(t.1));
    report.extra("timing_guard_retries", json!(t.2));
    let inc = inconclusive.lock().unwrap();
    report.extra("inconclusive_cases", json!(*inc));
    let n_inc: u64 = inc.values().sum();
    if n_inc * 5 > report.evaluations() {
        report.note_inconclusive(&format!("{n_inc} of {} cases could not be decided (timing guard / barrier)", report.evaluations()));
        report.extra("too_many_inconclusive", Value::Bool(true));
    }
    drop(t);
    drop(inc);
    if let Some(f) = fallback {
        let _ = std::fs::remove_dir_all(f);
    }
    report.finish();
}
