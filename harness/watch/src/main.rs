use vcore::{Fail, Report};
use watch::script::Script;
use watch::session::{Outcome, Session, Stop, compare};

fn run_script(script: &Script, root: &std::path::Path, verbose: bool) -> Result<(), Stop> {
    let files: Vec<(&str, String)> = script.initial.iter().map(|(p, t)| (p.as_str(), t.clone())).collect();
    let mut s = Session::start(root, &files)?;
    s.verbose = verbose;
    let mut result = Ok(());
    for (i, w) in script.windows.iter().enumerate() {
        if verbose {
            println!("window {i}: {:?}", w.iter().map(watch::script::op_to_json).map(|j| j.to_string()).collect::<Vec<_>>());
        }
        match s.window(w) {
            Ok(rep) => {
                if verbose {
                    println!("      changes={} watch={} fresh={}", rep.changes, rep.watch.kind(), rep.fresh.kind());
                    if let Outcome::Diagnostics(d) = &rep.fresh { for x in d { println!("      fresh diag: {}", x.lines().next().unwrap_or("")); } }
                }
                if let Some((kind, msg)) = compare(&rep.watch, &rep.fresh) {
                    result = Err(Stop::Fail(Fail::new(format!("diverge:{kind}"), format!("after window {i}: {kind}\n{msg}"))));
                    break;
                }
            }
            Err(stop) => {
                result = Err(stop);
                break;
            }
        }
    }
    s.stop();
    result
}

fn main() {
    let args = vcore::parse_args();
    let report = Report::new(&args, "exploration", "tbd");
    let verbose = std::env::var("VERIF_VERBOSE").is_ok();
    if let Some(path) = &args.replay {
        let v = vcore::read_replay(path);
        let script = Script::from_json(&v["input"]).unwrap_or_else(|e| vcore::inconclusive(&format!("bad replay: {e}")));
        let root = vcore::scratch_base().join("w0/p");
        match run_script(&script, &root, verbose) {
            Ok(()) => println!("replay: held"),
            Err(Stop::Fail(f)) => { report.violation("replay", &f, v["input"].clone()); }
            Err(Stop::Inconclusive(w)) => println!("replay: inconclusive {w}"),
        }
        report.case(Some("replay"), &["replay"]);
        report.finish();
    }
}
