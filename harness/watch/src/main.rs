fn main() {
    vcore::inconclusive("watch: not built yet");
}
