//! C07 thorough tier: `parse_iso_literal` on raw bytes with the C07 oracle inside the target
//! (no panic; every `Span { start, end }` of the result lies inside the text on character
//! boundaries; semantic tokens strictly increasing and non-overlapping). The oracle is a copy of
//! `isolit/src/c07.rs::check_text` (kept dependency-light on purpose: the target links only the
//! parser); `./check C07 --tier thorough` re-runs every stored artifact through isolit's own
//! copy, so a divergence between the two shows up as "crash not reproduced".
//!
//! Known, recorded panics can be tolerated so that a campaign keeps going:
//! `VERIF_C07_TOLERATE` = `;`-separated substrings of panic messages.
#![no_main]
use common_lang_types::TextSource;
use intern::string_key::Intern;
use isograph_lang_parser::parse_iso_literal;
use libfuzzer_sys::fuzz_target;
use std::sync::OnceLock;

fn tolerated() -> &'static Vec<String> {
    static T: OnceLock<Vec<String>> = OnceLock::new();
    T.get_or_init(|| {
        std::env::var("VERIF_C07_TOLERATE").map(|s| s.split(';').filter(|x| !x.is_empty()).map(|x| x.to_string()).collect()).unwrap_or_default()
    })
}

fn spans_in_debug(dbg: &str) -> Vec<(u64, u64)> {
    let mut out = vec![];
    let pat = "Span { start: ";
    let mut rest = dbg;
    while let Some(i) = rest.find(pat) {
        rest = &rest[i + pat.len()..];
        let a: String = rest.chars().take_while(|c| c.is_ascii_digit()).collect();
        if let Some(after) = rest[a.len()..].strip_prefix(", end: ") {
            let b: String = after.chars().take_while(|c| c.is_ascii_digit()).collect();
            if let (Ok(a), Ok(b)) = (a.parse(), b.parse()) {
                out.push((a, b));
            }
        }
    }
    out
}

fn span_ok(text: &str, s: u64, e: u64) -> bool {
    s <= e && (e as usize) <= text.len() && text.is_char_boundary(s as usize) && text.is_char_boundary(e as usize)
}

fuzz_target!(|data: &[u8]| {
    let Ok(text) = std::str::from_utf8(data) else { return };
    let file = "src/fuzz.tsx".intern().into();
    let result = if tolerated().is_empty() {
        parse_iso_literal(text.to_string(), file, Some("Exported".to_string()), TextSource { relative_path_to_source_file: file, span: None })
    } else {
        let prev = std::panic::take_hook();
        std::panic::set_hook(Box::new(|_| {}));
        let r = std::panic::catch_unwind(|| {
            parse_iso_literal(text.to_string(), file, Some("Exported".to_string()), TextSource { relative_path_to_source_file: file, span: None })
        });
        std::panic::set_hook(prev);
        match r {
            Ok(r) => r,
            Err(e) => {
                let msg = e.downcast_ref::<&str>().map(|s| s.to_string()).or_else(|| e.downcast_ref::<String>().cloned()).unwrap_or_default();
                if tolerated().iter().any(|t| msg.contains(t.as_str())) {
                    return;
                }
                panic!("VIOLATION C07 panic: {msg}");
            }
        }
    };
    match result {
        Ok(decl) => {
            for (s, e) in spans_in_debug(&format!("{decl:?}")) {
                assert!(span_ok(text, s, e), "VIOLATION C07 span:ast-out-of-bounds-or-inverted {s}..{e} len {}", text.len());
            }
            let mut prev: Option<(u32, u32)> = None;
            for t in decl.semantic_tokens() {
                let (s, e) = (t.location.span.start, t.location.span.end);
                assert!(span_ok(text, s as u64, e as u64), "VIOLATION C07 span:semantic-token-out-of-bounds {s}..{e}");
                if let Some((ps, pe)) = prev {
                    assert!(ps < s && pe <= s, "VIOLATION C07 semantic-tokens:not-increasing {ps}..{pe} then {s}..{e}");
                }
                prev = Some((s, e));
            }
        }
        Err(diag) => {
            for (s, e) in spans_in_debug(&format!("{diag:?}")) {
                assert!(span_ok(text, s, e), "VIOLATION C07 span:diagnostic-out-of-bounds-or-inverted {s}..{e} len {}", text.len());
            }
        }
    }
});
