//! C30 thorough tier: graphql_schema_parser::parse_schema / parse_schema_extensions against refgql.
#![no_main]
use libfuzzer_sys::fuzz_target;

fuzz_target!(|data: &[u8]| {
    gqlcheck::fuzz::check_bytes(gqlcheck::fuzz::Target::Iso, data);
});
