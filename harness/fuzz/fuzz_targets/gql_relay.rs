//! C29 thorough tier: relay's parse_executable / parse_schema_document against refgql on raw bytes.
#![no_main]
use libfuzzer_sys::fuzz_target;

fuzz_target!(|data: &[u8]| {
    gqlcheck::fuzz::check_bytes(gqlcheck::fuzz::Target::Relay, data);
});
