fn main() {
    vcore::inconclusive("lspcheck: not built yet");
}
