//! C21 — language-server answers match a fresh server on the same effective contents.
//!
//! Domain: histories over four files of didOpen / didChange / didClose notifications (the public
//! handlers, called with an `LspState`), on-disk writes and deletions of those files and in-place
//! schema edits (applied to a real directory and delivered as the notify events inotify produces
//! for them, through the product's `categorize_and_filter_events` and `update_sources`, i.e. the
//! file-system arm of the server loop), garbage collections, and queries: `validate_entire_schema`
//! diagnostics (+ the publishDiagnostics parameters), semantic tokens, formatting, hover and
//! go-to-definition at generated positions.
//! Oracle (differential): each answer equals the answer of a FRESH `CompilerState` on the files
//! now on disk with the currently open buffers inserted (didOpen) before the query; and, as that
//! alone cannot see a defect in how open buffers are read (both servers share it), it also equals
//! the answer of a fresh server on a mirror directory whose files hold the effective contents.
use std::collections::{BTreeMap, BTreeSet};
use std::path::{Path, PathBuf};
use std::str::FromStr;
use std::sync::atomic::{AtomicUsize, Ordering};
use std::time::Instant;

use common_lang_types::CurrentWorkingDirectory;
use isograph_compiler::verif::categorize_and_filter_events;
use isograph_compiler::{CompilerState, update_sources};
use isograph_config::{CompilerConfig, create_config};
use isograph_lsp::text_document::{on_did_change_text_document, on_did_close_text_document, on_did_open_text_document};
use isograph_lsp::verif::{LspState, iso_diagnostics_to_params, on_format, on_goto_definition, on_hover, on_semantic_token_full_request};
use isograph_schema::validate_entire_schema;
use lsp_types::{
    DidChangeTextDocumentParams, DidCloseTextDocumentParams, DidOpenTextDocumentParams, DocumentFormattingParams,
    FormattingOptions, GotoDefinitionParams, HoverParams, Position, SemanticTokensParams, TextDocumentContentChangeEvent,
    TextDocumentIdentifier, TextDocumentItem, TextDocumentPositionParams, Uri, VersionedTextDocumentIdentifier,
};
use notify::event::{CreateKind, DataChange, ModifyKind, RemoveKind};
use notify::{Event, EventKind};
use notify_debouncer_full::DebouncedEvent;
use pico::Database;
use proptest::prelude::*;
use serde_json::{Value, json};
use vcore::{Args, Fail, Report};
use watch::project::{self, Unit};
use watch::session::{Profile, panic_class, project_cwd, render_diagnostics, write_initial_tree};

const FILES: [&str; 4] = ["src/home.ts", "src/a/x.ts", "src/ab/x.ts", "src/new.ts"];

#[derive(Clone, Debug, PartialEq, Eq, Hash)]
enum QueryKind {
    Validate,
    Tokens,
    Format,
    Hover(u16),
    Goto(u16),
}

#[derive(Clone, Debug, PartialEq, Eq, Hash)]
enum Step {
    Open { file: u8, text: String },
    Change { file: u8, text: String },
    Close { file: u8 },
    DiskWrite { file: u8, text: String },
    DiskDelete { file: u8 },
    Schema { variant: u8 },
    Ext { variant: u8 },
    Gc,
    Query { file: u8, kind: QueryKind },
}

/// File `i` only defines fields named `F<i>` (so no field is defined in two files: which of two
/// definitions wins depends on HashMap order even between two fresh servers) and may select the
/// client fields of the files before it.
fn file_text(file: u8, units: &[Unit]) -> String {
    let units: Vec<Unit> = units
        .iter()
        .map(|u| match u {
            Unit::Field { ty, component, sels, .. } => Unit::Field { ty: *ty, name: file, component: *component, sels: sels.clone() },
            Unit::Commented { .. } => Unit::Commented { name: file },
            // the same entrypoint declared in two files is reported at one of them, by hash order
            Unit::Entrypoint { .. } => Unit::Entrypoint { name: file },
            other => other.clone(),
        })
        .collect();
    project::render_source(&units)
}

/// The initial project: the C20 one with the per-file field names of this check.
fn initial_files() -> Vec<(&'static str, String)> {
    use watch::project::Sel;
    let field = |ty: u8, sels: Vec<Sel>| Unit::Field { ty, name: 0, component: false, sels };
    let mut files: Vec<(&'static str, String)> =
        project::initial_files().into_iter().filter(|(p, _)| !p.starts_with("src/")).collect();
    files.push((FILES[0], file_text(0, &[field(0, vec![Sel::Scalar(0), Sel::Linked(0, vec![Sel::Scalar(1)])]), Unit::Entrypoint { name: 0 }])));
    files.push((FILES[1], file_text(1, &[field(1, vec![Sel::Scalar(1), Sel::Scalar(2)])])));
    files.push((FILES[2], file_text(2, &[field(2, vec![Sel::Scalar(1)])])));
    files
}

fn text_for(file: u8) -> impl Strategy<Value = String> {
    project::units().prop_map(move |u| file_text(file, &u))
}

fn file_and_text() -> impl Strategy<Value = (u8, String)> {
    (0u8..FILES.len() as u8).prop_flat_map(|f| (Just(f), text_for(f)))
}

fn query_kind() -> impl Strategy<Value = QueryKind> {
    prop_oneof![
        4 => Just(QueryKind::Validate),
        2 => Just(QueryKind::Tokens),
        2 => Just(QueryKind::Format),
        3 => any::<u16>().prop_map(QueryKind::Hover),
        3 => any::<u16>().prop_map(QueryKind::Goto),
    ]
}

fn step() -> impl Strategy<Value = Step> {
    let f = 0u8..FILES.len() as u8;
    prop_oneof![
        5 => file_and_text().prop_map(|(file, text)| Step::Open { file, text }),
        6 => file_and_text().prop_map(|(file, text)| Step::Change { file, text }),
        4 => f.clone().prop_map(|file| Step::Close { file }),
        5 => file_and_text().prop_map(|(file, text)| Step::DiskWrite { file, text }),
        1 => f.clone().prop_map(|file| Step::DiskDelete { file }),
        1 => (0u8..4).prop_map(|variant| Step::Schema { variant }),
        1 => (0u8..3).prop_map(|variant| Step::Ext { variant }),
        1 => Just(Step::Gc),
        12 => (f, query_kind()).prop_map(|(file, kind)| Step::Query { file, kind }),
    ]
}

fn history() -> impl Strategy<Value = Vec<Step>> {
    prop::collection::vec(step(), 2..14)
}

// ---------------------------------------------------------------------------------------------

fn uri_of(root: &Path, rel: &str) -> Uri {
    Uri::from_str(&format!("file://{}", root.join(rel).display())).expect("uri")
}

fn tdi(root: &Path, rel: &str) -> TextDocumentIdentifier {
    TextDocumentIdentifier { uri: uri_of(root, rel) }
}

struct Server<'a> {
    lsp: LspState<'a, Profile>,
    root: PathBuf,
}

impl<'a> Server<'a> {
    fn new(config: &CompilerConfig, cwd: CurrentWorkingDirectory, root: &Path, sender: &'a crossbeam::channel::Sender<lsp_server::Message>) -> Result<Self, String> {
        let state = CompilerState::<Profile>::new(config.clone(), cwd).map_err(|e| e.to_string())?;
        Ok(Server { lsp: LspState::new(state, sender), root: root.to_path_buf() })
    }

    fn open(&mut self, rel: &str, text: &str) {
        let _ = on_did_open_text_document(
            &mut self.lsp,
            DidOpenTextDocumentParams {
                text_document: TextDocumentItem { uri: uri_of(&self.root, rel), language_id: "typescript".into(), version: 1, text: text.to_string() },
            },
        );
    }

    fn change(&mut self, rel: &str, text: &str) {
        let _ = on_did_change_text_document(
            &mut self.lsp,
            DidChangeTextDocumentParams {
                text_document: VersionedTextDocumentIdentifier { uri: uri_of(&self.root, rel), version: 2 },
                content_changes: vec![TextDocumentContentChangeEvent { range: None, range_length: None, text: text.to_string() }],
            },
        );
    }

    fn close(&mut self, rel: &str) {
        let _ = on_did_close_text_document(&mut self.lsp, DidCloseTextDocumentParams { text_document: tdi(&self.root, rel) });
    }

    /// One answer, as JSON (a panic of the handler is an answer too: `{"panic": where}`).
    fn query(&self, rel: &str, kind: &QueryKind, position: Position) -> Value {
        let root = self.root.clone();
        let lsp = &self.lsp;
        let pos_params = || TextDocumentPositionParams { text_document: tdi(&root, rel), position };
        let r = vcore::catch_panic(|| -> Value {
            fn show<T: serde::Serialize>(r: Result<T, isograph_lsp::lsp_runtime_error::LSPRuntimeError>) -> Value {
                match r {
                    Ok(v) => json!({"ok": serde_json::to_value(v).unwrap_or(Value::Null)}),
                    Err(e) => json!({"err": format!("{e:?}")}),
                }
            }
            match kind {
                QueryKind::Validate => {
                    let db = &lsp.compiler_state.db;
                    let diagnostics = match validate_entire_schema(db) {
                        Ok(_) => vec![],
                        Err(e) => e.clone(),
                    };
                    let (params, _) = iso_diagnostics_to_params(db, &diagnostics, BTreeSet::new());
                    json!({
                        "diagnostics": render_diagnostics(db, &diagnostics, &root),
                        "published": serde_json::to_value(params).unwrap_or(Value::Null),
                    })
                }
                QueryKind::Tokens => show(on_semantic_token_full_request(
                    lsp,
                    SemanticTokensParams {
                        work_done_progress_params: Default::default(),
                        partial_result_params: Default::default(),
                        text_document: tdi(&root, rel),
                    },
                )),
                QueryKind::Format => show(on_format(
                    lsp,
                    DocumentFormattingParams {
                        text_document: tdi(&root, rel),
                        options: FormattingOptions { tab_size: 2, insert_spaces: true, ..Default::default() },
                        work_done_progress_params: Default::default(),
                    },
                )),
                QueryKind::Hover(_) => show(on_hover(
                    lsp,
                    HoverParams { text_document_position_params: pos_params(), work_done_progress_params: Default::default() },
                )),
                QueryKind::Goto(_) => show(on_goto_definition(
                    lsp,
                    GotoDefinitionParams {
                        text_document_position_params: pos_params(),
                        work_done_progress_params: Default::default(),
                        partial_result_params: Default::default(),
                    },
                )),
            }
        });
        match r {
            Ok(v) => v,
            Err(p) => json!({"panic": panic_class(&p), "message": p.split(" @ ").next().unwrap_or("")}),
        }
    }
}


// ---------------------------------------------------------------------------------------------

/// The notify events inotify + the debouncer deliver for a plain write / create / delete of a file
/// (observed in the C20 runs), for the product's own categorisation.
fn fs_event(path: &Path, kind: EventKind) -> DebouncedEvent {
    DebouncedEvent::new(Event::new(kind).add_path(path.to_path_buf()), Instant::now())
}

#[derive(Debug)]
enum Stop {
    Fail(Fail),
    Inconclusive(String),
}

#[derive(Default)]
struct Stats {
    queries: u64,
    queries_with_dirty_buffer: u64,
    close_after_change: bool,
    first_open_after_first_query: bool,
    live_panics: u64,
    labels: BTreeSet<String>,
}

fn offset_to_position(text: &str, offset: usize) -> Position {
    let before = &text[..offset.min(text.len())];
    let line = before.matches('\n').count() as u32;
    let col = before.rsplit('\n').next().unwrap_or("").len() as u32;
    Position { line, character: col }
}

/// Positions are biased towards identifiers inside iso literals (every second pick lands on the
/// start of a word after the first backtick).
fn pick_position(text: &str, pick: u16) -> Position {
    if text.is_empty() {
        return Position { line: 0, character: 0 };
    }
    if pick % 2 == 0 {
        if let Some(first_tick) = text.find('`') {
            let bytes = text.as_bytes();
            let starts: Vec<usize> = (first_tick + 1..text.len())
                .filter(|&i| bytes[i].is_ascii_alphabetic() && !bytes[i - 1].is_ascii_alphanumeric())
                .collect();
            if !starts.is_empty() {
                return offset_to_position(text, starts[vcore::pick_index(pick, starts.len())]);
            }
        }
    }
    offset_to_position(text, vcore::pick_index(pick, text.len() + 1))
}

/// `warm_up`: open and close one file before anything else (the generator switch that keeps the
/// recorded finding `stale-after-first-open` out: the open-file map exists before any memoized
/// function has run).
fn run_history(steps: &[Step], root: &Path, warm_up: bool, verbose: bool, stats: &mut Stats) -> Result<(), Stop> {
    let initial = initial_files();
    write_initial_tree(root, &initial);
    let cwd = project_cwd(root);
    let config = create_config(&root.join("isograph.config.json"), cwd);
    let (sender, receiver) = crossbeam::channel::unbounded::<lsp_server::Message>();
    let mut live = Server::new(&config, cwd, root, &sender).map_err(|e| Stop::Inconclusive(format!("initial state: {e}")))?;
    // second oracle: a mirror project whose FILES hold the effective contents (no open buffers)
    let mirror = root.parent().expect("parent").join("m");
    write_initial_tree(&mirror, &initial);
    let mirror_cwd = project_cwd(&mirror);
    let mirror_config = create_config(&mirror.join("isograph.config.json"), mirror_cwd);
    let normalise = |v: &Value, r: &Path| -> Value {
        serde_json::from_str(&v.to_string().replace(&r.display().to_string(), "<ROOT>")).unwrap_or(Value::Null)
    };
    let mut open: BTreeMap<&'static str, String> = BTreeMap::new();
    let mut changed_since_open: BTreeSet<&'static str> = BTreeSet::new();
    let mut queried = false;
    let mut opened = false;
    if warm_up {
        let text = std::fs::read_to_string(root.join(FILES[0])).unwrap_or_default();
        live.open(FILES[0], &text);
        live.close(FILES[0]);
        opened = true;
    }

    for (i, step) in steps.iter().enumerate() {
        if verbose {
            println!("step {i}: {}", step_json(step));
        }
        let mut fs_events: Vec<DebouncedEvent> = vec![];
        match step {
            Step::Open { file, text } => {
                let rel = FILES[*file as usize % FILES.len()];
                if !opened && queried {
                    stats.first_open_after_first_query = true;
                }
                opened = true;
                live.open(rel, text);
                open.insert(rel, text.clone());
                changed_since_open.remove(rel);
                stats.labels.insert("step:didOpen".into());
            }
            Step::Change { file, text } => {
                let rel = FILES[*file as usize % FILES.len()];
                // editors only send didChange for documents they have opened: a change of a closed
                // document is delivered as its didOpen
                if !open.contains_key(rel) {
                    if !opened && queried {
                        stats.first_open_after_first_query = true;
                    }
                    opened = true;
                    live.open(rel, text);
                    open.insert(rel, text.clone());
                    stats.labels.insert("step:didOpen".into());
                    continue;
                }
                live.change(rel, text);
                open.insert(rel, text.clone());
                changed_since_open.insert(rel);
                stats.labels.insert("step:didChange".into());
            }
            Step::Close { file } => {
                // one of the open documents
                let Some(rel) = open.keys().nth(*file as usize % open.len().max(1)).copied() else {
                    stats.labels.insert("skipped:didClose-without-open-document".into());
                    continue;
                };
                open.remove(rel);
                if changed_since_open.remove(rel) {
                    stats.close_after_change = true;
                }
                live.close(rel);
                stats.labels.insert("step:didClose".into());
            }
            Step::DiskWrite { file, text } => {
                let rel = FILES[*file as usize % FILES.len()];
                let p = root.join(rel);
                let existed = p.is_file();
                std::fs::write(&p, text).map_err(|e| Stop::Inconclusive(format!("write: {e}")))?;
                fs_events.push(fs_event(&p, if existed { EventKind::Modify(ModifyKind::Data(DataChange::Any)) } else { EventKind::Create(CreateKind::File) }));
                stats.labels.insert(if existed { "step:disk-modify" } else { "step:disk-create" }.into());
            }
            Step::DiskDelete { file } => {
                let rel = FILES[*file as usize % FILES.len()];
                let p = root.join(rel);
                if !p.is_file() {
                    stats.labels.insert("skipped:delete-of-missing-file".into());
                    continue;
                }
                std::fs::remove_file(&p).map_err(|e| Stop::Inconclusive(format!("rm: {e}")))?;
                fs_events.push(fs_event(&p, EventKind::Remove(RemoveKind::File)));
                stats.labels.insert("step:disk-delete".into());
            }
            Step::Schema { variant } => {
                let p = root.join("schema.graphql");
                std::fs::write(&p, project::schema_text(*variant as usize)).map_err(|e| Stop::Inconclusive(format!("write: {e}")))?;
                fs_events.push(fs_event(&p, EventKind::Modify(ModifyKind::Data(DataChange::Any))));
                stats.labels.insert("step:schema-edit".into());
            }
            Step::Ext { variant } => {
                let p = root.join("ext.graphql");
                std::fs::write(&p, project::ext_text(*variant as usize)).map_err(|e| Stop::Inconclusive(format!("write: {e}")))?;
                fs_events.push(fs_event(&p, EventKind::Modify(ModifyKind::Data(DataChange::Any))));
                stats.labels.insert("step:extension-edit".into());
            }
            Step::Gc => {
                live.lsp.compiler_state.db.run_garbage_collection();
                stats.labels.insert("step:gc".into());
            }
            Step::Query { file, kind } => {
                let rel = FILES[*file as usize % FILES.len()];
                let effective: String = match open.get(rel) {
                    Some(t) => t.clone(),
                    None => std::fs::read_to_string(root.join(rel)).unwrap_or_default(),
                };
                let tracked = root.join(rel).is_file();
                let position = match kind {
                    QueryKind::Hover(p) | QueryKind::Goto(p) => pick_position(&effective, *p),
                    _ => Position { line: 0, character: 0 },
                };
                let dirty = open.iter().any(|(r, t)| std::fs::read_to_string(root.join(r)).ok().as_deref() != Some(t.as_str()));
                let kind_name = match kind {
                    QueryKind::Validate => "validate",
                    QueryKind::Tokens => "semantic-tokens",
                    QueryKind::Format => "format",
                    QueryKind::Hover(_) => "hover",
                    QueryKind::Goto(_) => "goto-definition",
                };
                if !tracked && matches!(kind, QueryKind::Tokens) {
                    // both servers panic ("Expected source to exist") for a semantic-tokens request on a
                    // project file that is not on disk; asked rarely so that histories go on
                    if i % 8 != 0 {
                        stats.labels.insert("skipped:semantic-tokens-for-file-missing-on-disk(panics-on-both-servers)".into());
                        continue;
                    }
                }
                stats.queries += 1;
                if dirty {
                    stats.queries_with_dirty_buffer += 1;
                }
                stats.labels.insert(format!("query:{kind_name}"));
                if !tracked {
                    stats.labels.insert("query:on-file-missing-on-disk".into());
                }
                queried = true;

                let got = live.query(rel, kind, position);
                let shape = if got.get("panic").is_some() {
                    "panic"
                } else if got.get("err").is_some() {
                    "error"
                } else if matches!(kind, QueryKind::Validate) {
                    if got["diagnostics"].as_array().is_some_and(|a| a.is_empty()) { "no-diagnostics" } else { "diagnostics" }
                } else if got["ok"].is_null() {
                    "null"
                } else {
                    "some"
                };
                stats.labels.insert(format!("answer:{kind_name}:{shape}"));
                // the fresh server: same disk, open buffers inserted before the query
                let (fsender, _freceiver) = crossbeam::channel::unbounded::<lsp_server::Message>();
                let fresh_answer = |with_buffers: bool| -> Result<Value, Stop> {
                    let mut fresh = Server::new(&config, cwd, root, &fsender).map_err(|e| Stop::Inconclusive(format!("fresh state: {e}")))?;
                    if with_buffers {
                        for (r, t) in &open {
                            fresh.open(r, t);
                        }
                    }
                    Ok(fresh.query(rel, kind, position))
                };
                let want = fresh_answer(true)?;
                if verbose {
                    println!("      {kind_name} {rel} {position:?}: {}", if got == want { "equal" } else { "DIFFERENT" });
                }
                if got != want {
                    let disk_only = fresh_answer(false)?;
                    let cause = if got.get("panic").is_some() {
                        format!("live-panic:{}", got["panic"].as_str().unwrap_or("?"))
                    } else if got == disk_only && !open.is_empty() && stats.first_open_after_first_query {
                        "stale-after-first-open".to_string()
                    } else if got == disk_only && !open.is_empty() {
                        format!("open-buffer-ignored:{kind_name}")
                    } else {
                        format!("answer-differs:{kind_name}")
                    };
                    return Err(Stop::Fail(Fail::new(
                        cause,
                        format!(
                            "step {i}: {kind_name} on {rel} at {}:{} (open buffers: {:?})\nlive server : {}\nfresh server: {}",
                            position.line,
                            position.character,
                            open.keys().collect::<Vec<_>>(),
                            truncate(&got.to_string()),
                            truncate(&want.to_string())
                        ),
                    )));
                }
                // Second oracle, independent of the open-buffer mechanism: a fresh server on a mirror
                // directory in which the open buffers have been written into their files (a buffer
                // for a file that is not on disk replaces nothing and is left out).
                if got.get("panic").is_none() {
                    for extra in ["schema.graphql", "ext.graphql"] {
                        let _ = std::fs::copy(root.join(extra), mirror.join(extra));
                    }
                    for f in FILES {
                        let on_disk = std::fs::read_to_string(root.join(f)).ok();
                        match (on_disk, open.get(f)) {
                            (Some(_), Some(buffer)) => std::fs::write(mirror.join(f), buffer).map_err(|e| Stop::Inconclusive(format!("mirror: {e}")))?,
                            (Some(disk), None) => std::fs::write(mirror.join(f), disk).map_err(|e| Stop::Inconclusive(format!("mirror: {e}")))?,
                            (None, _) => {
                                let _ = std::fs::remove_file(mirror.join(f));
                            }
                        }
                    }
                    let materialised = Server::new(&mirror_config, mirror_cwd, &mirror, &fsender)
                        .map_err(|e| Stop::Inconclusive(format!("mirror state: {e}")))?
                        .query(rel, kind, position);
                    let (a, b) = (normalise(&got, root), normalise(&materialised, &mirror));
                    if a != b {
                        return Err(Stop::Fail(Fail::new(
                            format!("differs-from-materialised-contents:{kind_name}"),
                            format!(
                                "step {i}: {kind_name} on {rel} at {}:{} (open buffers: {:?})\nlive server (= fresh server with the buffers opened): {}\nfresh server on files holding the effective contents: {}",
                                position.line,
                                position.character,
                                open.keys().collect::<Vec<_>>(),
                                truncate(&a.to_string()),
                                truncate(&b.to_string())
                            ),
                        )));
                    }
                }
                if got.get("panic").is_some() {
                    // both servers panic alike; the real server would be gone now
                    stats.live_panics += 1;
                    stats.labels.insert(format!("panic-on-both-servers:{kind_name}:{}:{}", got["panic"].as_str().unwrap_or(""), got["message"].as_str().unwrap_or("").chars().take(48).map(|c| if c.is_control() { ' ' } else { c }).collect::<String>()));
                    stats.labels.insert("ended:handler-panics-on-both-servers".into());
                    return Ok(());
                }
            }
        }
        if !fs_events.is_empty() {
            // the file-system arm of the server loop
            let db = &mut live.lsp.compiler_state.db;
            let r = vcore::catch_panic(|| match categorize_and_filter_events(&fs_events, &config) {
                Some(changes) => update_sources(db, &changes).map_err(|e| e.iter().map(|x| x.to_string()).collect::<Vec<_>>().join("\n")),
                None => Ok(()),
            });
            match r {
                Ok(Ok(())) => {}
                Ok(Err(e)) => return Err(Stop::Fail(Fail::new("server-stops:update-sources-error", format!("step {i}: update_sources returned Err (the server loop returns): {e}")))),
                Err(p) => return Err(Stop::Fail(Fail::new(format!("panic:{}", panic_class(&p)), format!("step {i}: {p}")))),
            }
        }
        while receiver.try_recv().is_ok() {}
    }
    Ok(())
}

fn truncate(s: &str) -> String {
    if s.len() > 1500 { format!("{}…", &s[..1500]) } else { s.to_string() }
}

fn step_json(s: &Step) -> Value {
    match s {
        Step::Open { file, text } => json!({"step": "open", "file": file, "text": text}),
        Step::Change { file, text } => json!({"step": "change", "file": file, "text": text}),
        Step::Close { file } => json!({"step": "close", "file": file}),
        Step::DiskWrite { file, text } => json!({"step": "disk-write", "file": file, "text": text}),
        Step::DiskDelete { file } => json!({"step": "disk-delete", "file": file}),
        Step::Schema { variant } => json!({"step": "schema", "variant": variant}),
        Step::Ext { variant } => json!({"step": "ext", "variant": variant}),
        Step::Gc => json!({"step": "gc"}),
        Step::Query { file, kind } => {
            let (k, p) = match kind {
                QueryKind::Validate => ("validate", 0),
                QueryKind::Tokens => ("tokens", 0),
                QueryKind::Format => ("format", 0),
                QueryKind::Hover(p) => ("hover", *p),
                QueryKind::Goto(p) => ("goto", *p),
            };
            json!({"step": "query", "file": file, "kind": k, "pick": p})
        }
    }
}

fn step_from_json(v: &Value) -> Result<Step, String> {
    let file = v["file"].as_u64().unwrap_or(0) as u8;
    let text = || v["text"].as_str().map(|s| s.to_string()).ok_or_else(|| format!("missing text in {v}"));
    let variant = v["variant"].as_u64().unwrap_or(0) as u8;
    Ok(match v["step"].as_str().unwrap_or("") {
        "open" => Step::Open { file, text: text()? },
        "change" => Step::Change { file, text: text()? },
        "close" => Step::Close { file },
        "disk-write" => Step::DiskWrite { file, text: text()? },
        "disk-delete" => Step::DiskDelete { file },
        "schema" => Step::Schema { variant },
        "ext" => Step::Ext { variant },
        "gc" => Step::Gc,
        "query" => {
            let p = v["pick"].as_u64().unwrap_or(0) as u16;
            let kind = match v["kind"].as_str().unwrap_or("") {
                "validate" => QueryKind::Validate,
                "tokens" => QueryKind::Tokens,
                "format" => QueryKind::Format,
                "hover" => QueryKind::Hover(p),
                "goto" => QueryKind::Goto(p),
                other => return Err(format!("unknown query kind {other:?}")),
            };
            Step::Query { file, kind }
        }
        other => return Err(format!("unknown step {other:?}")),
    })
}

fn history_json(steps: &[Step], warm_up: bool) -> Value {
    json!({"files": FILES, "warm_up": warm_up, "steps": steps.iter().map(step_json).collect::<Vec<_>>()})
}

fn history_from_json(v: &Value) -> Result<(Vec<Step>, bool), String> {
    let mut steps = vec![];
    for s in v["steps"].as_array().ok_or("steps")? {
        steps.push(step_from_json(s)?);
    }
    Ok((steps, v["warm_up"].as_bool().unwrap_or(false)))
}

static NEXT_WORKER: AtomicUsize = AtomicUsize::new(0);
thread_local! {
    static WORKER: usize = NEXT_WORKER.fetch_add(1, Ordering::SeqCst);
}

fn worker_root(base: &Path) -> PathBuf {
    base.join(format!("l{}", WORKER.with(|w| *w))).join("p")
}

/// First didOpen happens after the first query?
fn first_open_after_first_query(steps: &[Step]) -> bool {
    let q = steps.iter().position(|s| matches!(s, Step::Query { .. }));
    let o = steps.iter().position(|s| matches!(s, Step::Open { .. } | Step::Change { .. }));
    matches!((q, o), (Some(q), Some(o)) if q < o)
}

fn main() {
    let args: Args = vcore::parse_args();
    if args.property != "C21" {
        vcore::inconclusive(&format!("lspcheck: unknown property {}", args.property));
    }
    let report = Report::new(
        &args,
        "exploration",
        "histories of 2-13 steps over four files: didOpen/didChange/didClose, on-disk write/create/delete, schema and \
         extension edits, garbage collections, and queries (validate_entire_schema + publishDiagnostics parameters, semantic \
         tokens, formatting, hover and go-to-definition at generated positions); non-trivial = a query is made while an open \
         buffer differs from its file on disk, or a didClose follows a didChange; distinct by history",
    );
    report.engine("stateful");
    report.engine("inproc");
    report.assumption("on-disk edits are delivered as the notify events observed for plain write/create/delete under inotify (Modify(Data), Create(File), Remove(File)), through the product's categorize_and_filter_events and update_sources");
    report.assumption("file contents are ASCII (byte/character offset confusion is C23's business); a field is never defined in two files (order-dependent even between two fresh servers: C14)");
    report.assumption("a handler panic is compared as an answer; the history ends there (the real server would be gone)");
    let verbose = std::env::var("VERIF_VERBOSE").is_ok();
    let base = vcore::scratch_base();

    let run_input = |input: &Value| -> Result<(), Fail> {
        let (steps, warm_up) = history_from_json(input).map_err(|e| Fail::new("bad-replay-input", e))?;
        let mut st = Stats::default();
        match run_history(&steps, &worker_root(&base), warm_up, verbose, &mut st) {
            Ok(()) => Ok(()),
            Err(Stop::Fail(f)) => Err(f),
            Err(Stop::Inconclusive(w)) => {
                report.note_inconclusive(&w);
                Ok(())
            }
        }
    };

    if let Some(path) = &args.replay {
        let v = vcore::read_replay(path);
        report.case(Some(&v["input"].to_string()), &["replay"]);
        report.case(Some("replay-marker"), &[]);
        match run_input(&v["input"]) {
            Ok(()) => println!("replay: held"),
            Err(f) => {
                report.violation("replay", &f, v["input"].clone());
            }
        }
        report.finish();
    }

    report.run_regressions(run_input);

    // generator switch for the recorded finding: warm the open-file map up before the first query
    let include = std::env::var("VERIF_C21_INCLUDE").unwrap_or_default();
    let exclude_first_open = (report.known_findings().iter().any(|k| k.signature == "stale-after-first-open")
        || std::env::var("VERIF_C21_EXCLUDE").unwrap_or_default().contains("stale-after-first-open"))
        && !include.contains("stale-after-first-open")
        && include != "all";
    report.extra("excluded_switches", json!(if exclude_first_open { vec!["stale-after-first-open"] } else { vec![] }));

    let cases = args.tier.pick(10000u32, 300000u32);
    let totals = std::sync::Mutex::new((0u64, 0u64, 0u64));
    let found = vcore::run_prop_parallel(&report, "histories", cases, vcore::num_workers(), history, |steps: &Vec<Step>| {
        let risky = first_open_after_first_query(steps);
        let warm_up = risky && exclude_first_open;
        if warm_up {
            report.excluded("stale-after-first-open");
        }
        let mut st = Stats::default();
        let r = run_history(steps, &worker_root(&base), warm_up, false, &mut st);
        {
            let mut t = totals.lock().unwrap();
            t.0 += st.queries;
            t.1 += st.queries_with_dirty_buffer;
            t.2 += st.live_panics;
        }
        let nontrivial = st.queries_with_dirty_buffer > 0 || st.close_after_change;
        let mut labels: Vec<&str> = st.labels.iter().map(|s| s.as_str()).collect();
        if risky {
            labels.push("shape:first-open-after-first-query");
        }
        if st.queries_with_dirty_buffer > 0 {
            labels.push("shape:query-with-dirty-buffer");
        }
        if st.close_after_change {
            labels.push("shape:close-after-change");
        }
        report.case(if nontrivial { Some(steps) } else { None }, &labels);
        report.sample(if nontrivial { "nontrivial" } else { "trivial" }, 2, || history_json(steps, warm_up));
        match r {
            Ok(()) => Ok(()),
            Err(Stop::Inconclusive(w)) => {
                report.label(&format!("inconclusive:{w}"));
                Ok(())
            }
            Err(Stop::Fail(f)) => Err(f),
        }
    });
    if let Some((steps, fail)) = found {
        let warm_up = first_open_after_first_query(&steps) && exclude_first_open;
        report.violation("histories", &fail, history_json(&steps, warm_up));
    }
    report.unfreeze();
    let t = totals.lock().unwrap();
    report.extra("queries_compared", json!(t.0));
    report.extra("queries_with_dirty_buffer", json!(t.1));
    report.extra("histories_ended_by_a_panic_on_both_servers", json!(t.2));
    drop(t);
    report.finish();
}
