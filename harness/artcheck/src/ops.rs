//! Operations as the runtime finds them in the module graph: for every `entrypoint.ts` the
//! entrypoint's own query (`networkRequestInfo`) and the refetch queries
//! (`readerWithRefetchQueries.nestedRefetchQueries[i].artifact.networkRequestInfo`).
use crate::driver::Compiled;
use tsread::Val;
use vcore::Fail;

#[derive(Clone, Debug)]
pub enum Operation {
    /// `{kind: "Operation", text}`: the cooked string the runtime sends
    Text(String),
    /// `{kind: "PersistedOperation", operationId, extraInfo}`
    Persisted { id: String, extra: Val },
}

#[derive(Clone, Debug)]
#[allow(dead_code)]
pub struct OpArtifact {
    /// `<Type>/<field>` of the entrypoint the operation belongs to
    pub entry: String,
    /// None = the entrypoint query, Some(i) = `nestedRefetchQueries[i]`
    pub index: Option<usize>,
    /// artifact that holds `networkRequestInfo` (`…/entrypoint.ts`, `…/__refetch__i.ts`)
    pub artifact: String,
    /// file the operation text was imported from (`…/query_text.ts`), when it is an import
    pub text_path: Option<String>,
    pub operation: Operation,
    /// `normalizationAst.selections`
    pub norm: Vec<Val>,
    pub concrete_type: Option<String>,
    pub allowed_variables: Vec<String>,
}

impl OpArtifact {
    pub fn name(&self) -> String {
        match self.index {
            None => format!("{}/entrypoint", self.entry),
            Some(i) => format!("{}/__refetch__{i}", self.entry),
        }
    }
    pub fn text(&self) -> Option<&str> {
        match &self.operation {
            Operation::Text(t) => Some(t),
            _ => None,
        }
    }
}

#[allow(dead_code)]
pub struct Entry {
    pub dir: String,
    pub path: String,
    pub query: OpArtifact,
    pub refetch: Vec<OpArtifact>,
    /// true when the reader is behind `ReaderWithRefetchQueriesLoader`
    pub lazy_reader: bool,
}

fn shape(what: &str, path: &str, detail: impl std::fmt::Display) -> Fail {
    Fail::new(format!("artifact-shape:{what}"), format!("{path}: {detail}"))
}

fn network_request_info(c: &Compiled, entry: &str, index: Option<usize>, artifact_path: &str, artifact: &Val, allowed: Vec<String>) -> Result<OpArtifact, Fail> {
    let set = &c.set;
    let nri = artifact.get("networkRequestInfo").ok_or_else(|| shape("no-networkRequestInfo", artifact_path, "missing"))?;
    let op = nri.get("operation").ok_or_else(|| shape("no-operation", artifact_path, "missing"))?;
    let mut text_path = None;
    let operation = match op.get("kind").and_then(|k| k.as_str()) {
        Some("Operation") => {
            let t = op.get("text").ok_or_else(|| shape("no-text", artifact_path, "missing"))?;
            if let Some(i) = t.as_import() {
                text_path = i.resolved.clone();
            }
            match set.deref(t) {
                Val::Str(s) => Operation::Text(s.clone()),
                other => return Err(shape("text-not-a-string", artifact_path, format!("{:?}", other.to_json()))),
            }
        }
        Some("PersistedOperation") => {
            let id = op.get("operationId").and_then(|v| v.as_str()).ok_or_else(|| shape("no-operationId", artifact_path, "missing"))?;
            Operation::Persisted { id: id.to_string(), extra: op.get("extraInfo").cloned().unwrap_or(Val::Undefined) }
        }
        other => return Err(shape("operation-kind", artifact_path, format!("{other:?}"))),
    };
    let norm_ref = nri.get("normalizationAst").ok_or_else(|| shape("no-normalizationAst", artifact_path, "missing"))?;
    let mut norm = set.deref(norm_ref);
    if norm.get("kind").and_then(|k| k.as_str()) == Some("NormalizationAstLoader") {
        // `loader: () => import('./normalization_ast').then(module => module.default)`
        let loader = norm.get("loader").ok_or_else(|| shape("no-loader", artifact_path, "missing"))?;
        norm = set.deref(loader.call0().awaited());
    }
    if norm.get("kind").and_then(|k| k.as_str()) != Some("NormalizationAst") {
        return Err(shape("normalizationAst-kind", artifact_path, format!("{}", norm.to_json())));
    }
    let selections = norm.get("selections").and_then(|s| s.as_array()).ok_or_else(|| shape("no-selections", artifact_path, "missing"))?;
    Ok(OpArtifact {
        entry: entry.to_string(),
        index,
        artifact: artifact_path.to_string(),
        text_path,
        operation,
        norm: selections.to_vec(),
        concrete_type: artifact.get("concreteType").and_then(|v| v.as_str()).map(|s| s.to_string()),
        allowed_variables: allowed,
    })
}

/// Every entrypoint of the artifact set with its operations, in path order.
pub fn entries(c: &Compiled) -> Result<Vec<Entry>, Fail> {
    let set = &c.set;
    let mut out = vec![];
    for path in set.paths_named("entrypoint.ts") {
        let dir = path.rsplit_once('/').map(|x| x.0).unwrap_or("").to_string();
        let module = &set.files[path];
        if !module.parse_errors.is_empty() {
            return Err(shape("parse-error", path, format!("{:?}", module.parse_errors[0].message)));
        }
        let artifact = module.default_export.as_ref().ok_or_else(|| shape("no-default-export", path, "missing"))?;
        if artifact.get("kind").and_then(|k| k.as_str()) != Some("Entrypoint") {
            return Err(shape("entrypoint-kind", path, format!("{}", artifact.to_json())));
        }
        let query = network_request_info(c, &dir, None, path, artifact, vec![])?;
        let rwrq = artifact.get("readerWithRefetchQueries").ok_or_else(|| shape("no-readerWithRefetchQueries", path, "missing"))?;
        let lazy_reader = rwrq.get("kind").and_then(|k| k.as_str()) == Some("ReaderWithRefetchQueriesLoader");
        // `nestedRefetchQueries` is a module-level const that both the eager object and the lazy
        // loader's result refer to
        let nested = match rwrq.get("nestedRefetchQueries") {
            Some(v) => v,
            None => module.consts.get("nestedRefetchQueries").ok_or_else(|| shape("no-nestedRefetchQueries", path, "missing"))?,
        };
        let nested = nested.as_array().ok_or_else(|| shape("nestedRefetchQueries-not-array", path, format!("{}", nested.to_json())))?;
        let mut refetch = vec![];
        for (i, w) in nested.iter().enumerate() {
            let art_ref = w.get("artifact").ok_or_else(|| shape("refetch-wrapper", path, format!("{}", w.to_json())))?;
            let art_path = art_ref.as_import().and_then(|r| r.resolved.clone()).ok_or_else(|| shape("refetch-import-unresolved", path, format!("{}", art_ref.to_json())))?;
            let art = set.deref(art_ref);
            if art.get("kind").and_then(|k| k.as_str()) != Some("RefetchQuery") {
                return Err(shape("refetch-kind", &art_path, format!("{}", art.to_json())));
            }
            let allowed = w
                .get("allowedVariables")
                .and_then(|a| a.as_array())
                .map(|a| a.iter().filter_map(|v| v.as_str().map(|s| s.to_string())).collect())
                .unwrap_or_default();
            refetch.push(network_request_info(c, &dir, Some(i), &art_path, art, allowed)?);
        }
        out.push(Entry { dir, path: path.to_string(), query, refetch, lazy_reader });
    }
    Ok(out)
}

/// All operations of all entrypoints.
pub fn all_ops(c: &Compiled) -> Result<Vec<OpArtifact>, Fail> {
    let mut out = vec![];
    for e in entries(c)? {
        out.push(e.query);
        out.extend(e.refetch);
    }
    Ok(out)
}

/// Path of the persisted-documents file named by the config (default `persisted_documents.json`).
pub fn persisted_file_name(c: &Compiled) -> Option<String> {
    let cfg: serde_json::Value = serde_json::from_str(c.files.get("isograph.config.json")?).ok()?;
    let pd = cfg.get("options")?.get("persisted_documents")?;
    if pd.is_null() {
        return None;
    }
    Some(pd.get("file").and_then(|f| f.as_str()).unwrap_or("persisted_documents.json").to_string())
}

/// The persisted documents (id -> document) of the artifact set.
pub fn persisted_documents(c: &Compiled) -> Result<Option<std::collections::BTreeMap<String, String>>, Fail> {
    let Some(name) = persisted_file_name(c) else { return Ok(None) };
    let text = c.artifacts.get(&name).ok_or_else(|| Fail::new("persisted:file-missing", format!("no artifact {name}; artifacts: {:?}", c.artifacts.keys().filter(|k| !k.contains('/')).collect::<Vec<_>>())))?;
    let v: serde_json::Value = serde_json::from_str(text).map_err(|e| Fail::new("persisted:not-json", format!("{name}: {e}")))?;
    let obj = v.as_object().ok_or_else(|| Fail::new("persisted:not-an-object", name.clone()))?;
    let mut m = std::collections::BTreeMap::new();
    for (k, d) in obj {
        let d = d.as_str().ok_or_else(|| Fail::new("persisted:document-not-a-string", format!("{name}: {k}")))?;
        m.insert(k.clone(), d.to_string());
    }
    Ok(Some(m))
}

/// The document the server would execute for an operation: the text itself, or the persisted
/// document its id names.
pub fn effective_text(op: &OpArtifact, persisted: &Option<std::collections::BTreeMap<String, String>>) -> Option<String> {
    match &op.operation {
        Operation::Text(t) => Some(t.clone()),
        Operation::Persisted { id, .. } => persisted.as_ref().and_then(|m| m.get(id).cloned()),
    }
}
