//! C25 — refetch references resolve to the refetch query for that field at that position.
//!
//! Domain: accepted generated programs (advanced / everything tiers reuse client fields that
//! contain `__refetch`, exposed mutation fields, `@loadable` children and client pointers from
//! several parents and entrypoints at different depths; the other tiers are trivial for this
//! property and counted as such) and the four checked-in projects.
//! Oracle: the module graph is followed as the runtime follows it. Start: an entrypoint's
//! `readerWithRefetchQueries` = (reader artifact, `nestedRefetchQueries`). A `Resolver` node hands
//! its child reader the list `usedRefetchQueries.map(i => list[i])`; a `Linked` node (server
//! field, `asX`, client pointer) reads its selections with the same list; an
//! `ImperativelyLoadedField` / client pointer picks `list[refetchQueryIndex]`. Every index must be
//! in range, and the artifact picked must be the one for that field at that position: its
//! operation is named `<entrypoint type>__<field>`, it has the wrapper the field kind demands
//! (`node(id: $id) { ... on T` for `__refetch` and pointers, the exposed path for `@exposeField`
//! fields) with T = the type at the position, and — for `__refetch` and exposed fields — the
//! selection set inside the wrapper equals the sub-tree of the entrypoint's own operation at the
//! position reached (both read with refgql; `__typename` directly inside the wrapper is ignored
//! because the compiler adds it there). The position is tracked through the entrypoint's
//! operation text by field name + arguments, with variables substituted along `Resolver`
//! arguments exactly as `generateChildVariableMap` does.
use crate::c11::{canon_gql, canon_gql_args};
use crate::driver::{self, ArtExclusions, CaseInfo, Compiled};
use crate::ops::{self, OpArtifact};
use gen_project::{DeclKind, Project};
use refgql::{Definition, OperationDefinition, Selection, SelectionSet};
use std::collections::{BTreeMap, BTreeSet};
use tsread::Val;
use vcore::{Args, Report};

type Env = BTreeMap<String, String>;

#[derive(Clone)]
enum Cursor<'d> {
    At { sel: &'d SelectionSet, ty: String },
    Lost,
}

fn resolve_value(v: &Val, env: &Env) -> Option<String> {
    let kind = v.get("kind").and_then(|k| k.as_str())?;
    Some(match kind {
        "Variable" => env.get(v.get("name")?.as_str()?)?.clone(),
        "Literal" => match v.get("value")? {
            Val::Num(n) => format!("num:{n}"),
            Val::Bool(b) => format!("lit:{b}"),
            Val::Null => "lit:null".into(),
            _ => return None,
        },
        "String" => format!("str:{:?}", v.get("value")?.as_str()?),
        "Enum" => format!("enum:{}", v.get("value")?.as_str()?),
        "Object" => {
            let mut f = vec![];
            for p in v.get("value")?.as_array()? {
                let [Val::Str(name), value] = p.as_array()? else { return None };
                f.push(format!("{name}={}", resolve_value(value, env)?));
            }
            f.sort();
            format!("{{{}}}", f.join(","))
        }
        _ => return None,
    })
}

fn resolve_args(args: Option<&Val>, env: &Env) -> Option<String> {
    match args {
        None | Some(Val::Null) => Some(String::new()),
        Some(Val::Array(a)) => {
            let mut f = vec![];
            for p in a {
                let [Val::Str(name), value] = p.as_array()? else { return None };
                f.push(format!("{name}={}", resolve_value(value, env)?));
            }
            f.sort();
            Some(f.join(","))
        }
        _ => None,
    }
}

/// Canonical text of a selection set modulo sibling order (and modulo response aliases).
fn canon_selset(s: &SelectionSet, drop_typename: bool) -> String {
    let mut items: Vec<String> = s
        .items
        .iter()
        .filter_map(|i| match i {
            Selection::Field(f) => {
                if drop_typename && f.name == "__typename" {
                    return None;
                }
                Some(format!("{}({}){}", f.name, canon_gql_args(&f.arguments), f.selection_set.as_ref().map(|s| canon_selset(s, false)).unwrap_or_default()))
            }
            Selection::InlineFragment(fr) => Some(format!("...{}{}", fr.type_condition.clone().unwrap_or_default(), canon_selset(&fr.selection_set, false))),
            Selection::FragmentSpread(s) => Some(format!("...{}", s.name)),
        })
        .collect();
    items.sort();
    items.dedup();
    format!("{{{}}}", items.join(" "))
}

fn single_operation(text: &str) -> Option<OperationDefinition> {
    let doc = refgql::parse_executable(text).ok()?;
    let mut ops = doc.definitions.into_iter().filter_map(|d| match d {
        Definition::Operation(o) => Some(o),
        _ => None,
    });
    let first = ops.next()?;
    if ops.next().is_some() {
        return None;
    }
    Some(first)
}

#[derive(Clone, Copy, PartialEq, Debug)]
enum RefKind {
    Pointer,
    Imperative,
}

struct Walk<'a> {
    c: &'a Compiled,
    model: Option<&'a Project>,
    entry_dir: String,
    entry_parent: String,
    /// exposed field name -> path of the `@exposeField(field: "a.b")` directive
    exposed: &'a BTreeMap<String, Vec<String>>,
    fails: Vec<(String, String)>,
    refs: u64,
    refs_positioned: u64,
    max_resolver_depth_at_ref: usize,
    /// reader artifacts (paths) that contain a refetch reference
    owners_with_refs: BTreeSet<String>,
    visiting: Vec<String>,
}

impl<'a> Walk<'a> {
    fn fail(&mut self, sig: &str, at: &str, msg: String) {
        self.fails.push((sig.to_string(), format!("entrypoint {} at {at}: {msg}", self.entry_dir)));
    }

    fn reader_ast_of(&self, artifact_ref: &'a Val) -> Option<(String, &'a [Val])> {
        let path = artifact_ref.as_import().and_then(|r| r.resolved.clone())?;
        let art = self.c.set.deref(artifact_ref).call0();
        let ast = self.c.set.deref(art.get("readerAst")?).as_array()?;
        Some((path, ast))
    }

    /// Is `op` the refetch query generated for `field` at the position of `cursor`?
    fn judge_op(&self, kind: RefKind, field: &str, op: &OpArtifact, cursor: &Cursor) -> Result<bool, String> {
        let Some(text) = op.text() else { return Ok(false) };
        let Some(o) = single_operation(text) else { return Ok(false) };
        // (a) the operation is the one generated for this field
        let expected_name = format!("{}__{}", self.entry_parent, field);
        if o.name.as_deref() != Some(expected_name.as_str()) {
            return Err(format!("its operation is named {:?}, expected {expected_name}\n{text}", o.name));
        }
        // (b) the wrapper: node(id: $id) { ... on T { S } } or the exposed path
        let mut sel = &o.selection_set;
        let path: Vec<String> = match self.exposed.get(field) {
            Some(p) if kind == RefKind::Imperative && field != "__refetch" => p.clone(),
            _ => vec!["node".to_string()],
        };
        let mut condition = None;
        for seg in &path {
            let next = sel.items.iter().find_map(|i| match i {
                Selection::Field(f) if &f.name == seg => f.selection_set.as_ref(),
                // an `asX` segment of an exposed path is a refinement: `... on X`
                Selection::InlineFragment(fr) if seg.strip_prefix("as").is_some() && fr.type_condition.as_deref() == seg.strip_prefix("as") => {
                    condition = fr.type_condition.clone();
                    Some(&fr.selection_set)
                }
                _ => None,
            });
            match next {
                Some(s) if sel.items.len() == 1 => sel = s,
                _ => return Err(format!("it lacks the wrapper of `{field}`: expected the single field `{seg}` in {text}")),
            }
        }
        if let ([Selection::InlineFragment(fr)], None) = (sel.items.as_slice(), &condition) {
            condition = fr.type_condition.clone();
            sel = &fr.selection_set;
        }
        let type_here = match (kind, cursor) {
            (RefKind::Imperative, Cursor::At { ty, .. }) => Some(ty.clone()),
            (RefKind::Pointer, Cursor::At { ty, .. }) => self.model.and_then(|m| {
                m.decls.iter().find(|d| &d.parent == ty && d.name == field).and_then(|d| match &d.kind {
                    DeclKind::Pointer { target } => Some(target.inner_name().to_string()),
                    _ => None,
                })
            }),
            _ => None,
        };
        if let (Some(t), Some(c)) = (&type_here, &condition) {
            if t != c {
                return Err(format!("the type at the position is {t}, the refetch query refines to {c}\n{text}"));
            }
        }
        if condition.is_none() && (field == "__refetch" || kind == RefKind::Pointer) {
            return Err(format!("it has no type condition\n{text}"));
        }
        // (c) the inner selection set is the sub-tree of the entrypoint's operation at the position
        if let (RefKind::Imperative, Cursor::At { sel: here, .. }) = (kind, cursor) {
            let a = canon_selset(sel, true);
            let b = canon_selset(here, true);
            if a != b {
                return Err(format!("refetch query selects : {a}\nentrypoint at position: {b}\n{text}"));
            }
            return Ok(true);
        }
        Ok(false)
    }

    #[allow(clippy::too_many_arguments)]
    fn check_ref(&mut self, kind: RefKind, field: &str, index: Option<&Val>, list: &[&'a OpArtifact], cursor: &Cursor, at: &str, depth: usize, owner: &str) {
        self.refs += 1;
        self.max_resolver_depth_at_ref = self.max_resolver_depth_at_ref.max(depth);
        self.owners_with_refs.insert(owner.to_string());
        let idx = match index {
            Some(Val::Num(n)) if *n >= 0.0 && n.fract() == 0.0 => *n as usize,
            other => {
                self.fail("refetch-query-index-not-a-number", at, format!("{:?}", other.map(|v| v.to_json())));
                return;
            }
        };
        let Some(op) = list.get(idx) else {
            self.fail("refetch-query-index-out-of-range", at, format!("`{field}` uses index {idx}, the list it is read with has {} entries (reader {owner})", list.len()));
            return;
        };
        match self.judge_op(kind, field, op, cursor) {
            Ok(positioned) => {
                if positioned {
                    self.refs_positioned += 1;
                }
            }
            Err(why) => {
                // root cause: is the right query in the list, at another index?
                let elsewhere = list.iter().enumerate().find(|(j, other)| *j != idx && self.judge_op(kind, field, other, cursor).is_ok());
                let names: Vec<String> = list.iter().map(|o| o.name()).collect();
                match elsewhere {
                    Some((j, right)) => self.fail(
                        "refetch-reference:right-query-at-another-index",
                        at,
                        format!("`{field}` (reader {owner}) uses index {idx} of the list {names:?} it is read with and picks {}: {why}\nthe query for this position is {} at index {j}", op.name(), right.name()),
                    ),
                    None => self.fail("refetch-reference:resolves-to-another-query", at, format!("`{field}` (reader {owner}) uses index {idx} of the list {names:?} it is read with and picks {}: {why}", op.name())),
                }
            }
        }
    }


    fn walk(&mut self, ast: &'a [Val], list: &[&'a OpArtifact], cursor: Cursor<'a>, env: &Env, depth: usize, owner: &str, at: &str) {
        for node in ast {
            let kind = node.get("kind").and_then(|k| k.as_str()).unwrap_or("?");
            let alias = node.get("alias").and_then(|a| a.as_str());
            let field_name = node.get("fieldName").and_then(|a| a.as_str());
            let here = format!("{at}/{}", alias.or(field_name).unwrap_or("?"));
            match kind {
                "Resolver" => {
                    let used: Vec<usize> = node
                        .get("usedRefetchQueries")
                        .and_then(|u| u.as_array())
                        .map(|a| a.iter().filter_map(|v| v.as_f64()).map(|f| f as usize).collect())
                        .unwrap_or_default();
                    let mut child_list: Vec<&OpArtifact> = vec![];
                    let mut ok = true;
                    for i in &used {
                        match list.get(*i) {
                            Some(op) => child_list.push(op),
                            None => {
                                ok = false;
                                self.fail("used-refetch-queries-index-out-of-range", &here, format!("usedRefetchQueries {used:?}, the list has {} entries (reader {owner})", list.len()));
                                break;
                            }
                        }
                    }
                    if !ok {
                        continue;
                    }
                    let Some(art_ref) = node.get("readerArtifact") else { continue };
                    let Some((child_path, child_ast)) = self.reader_ast_of(art_ref) else {
                        self.fail("artifact-shape:resolver-reader", &here, format!("{}", art_ref.to_json()));
                        continue;
                    };
                    if self.visiting.contains(&child_path) {
                        continue;
                    }
                    let mut child_env = Env::new();
                    if let Some(Val::Array(args)) = node.get("arguments") {
                        for p in args {
                            if let Some([Val::Str(name), value]) = p.as_array() {
                                if let Some(v) = resolve_value(value, env) {
                                    child_env.insert(name.clone(), v);
                                }
                            }
                        }
                    }
                    self.visiting.push(child_path.clone());
                    self.walk(child_ast, &child_list, cursor.clone(), &child_env, depth + 1, &child_path, &here);
                    self.visiting.pop();
                }
                "Linked" => {
                    let is_pointer = !matches!(node.get("refetchQueryIndex"), None | Some(Val::Null));
                    let has_condition = !matches!(node.get("condition"), None | Some(Val::Null));
                    let name = field_name.unwrap_or("?");
                    let selections = node.get("selections").and_then(|s| s.as_array()).unwrap_or(&[]);
                    if is_pointer {
                        self.check_ref(RefKind::Pointer, name, node.get("refetchQueryIndex"), list, &cursor, &here, depth, owner);
                        // the pointer's selections are read with the same list; the data comes from
                        // the pointer's own refetch query, so the entrypoint's operation has no position for them
                        self.walk(selections, list, Cursor::Lost, env, depth, owner, &here);
                        continue;
                    }
                    let next = match &cursor {
                        Cursor::Lost => Cursor::Lost,
                        Cursor::At { sel, ty } => {
                            if has_condition {
                                let target = name.strip_prefix("as").unwrap_or(name);
                                sel.items
                                    .iter()
                                    .find_map(|i| match i {
                                        Selection::InlineFragment(fr) if fr.type_condition.as_deref() == Some(target) => Some(Cursor::At { sel: &fr.selection_set, ty: target.to_string() }),
                                        _ => None,
                                    })
                                    .unwrap_or(Cursor::Lost)
                            } else {
                                match resolve_args(node.get("arguments"), env) {
                                    None => Cursor::Lost,
                                    Some(args) => {
                                        let schema = &self.c.schema;
                                        sel.items
                                            .iter()
                                            .find_map(|i| match i {
                                                Selection::Field(f) if f.name == name && canon_gql_args(&f.arguments) == args => {
                                                    let t = schema.field(ty, name).map(|d| d.ty.inner_name().to_string());
                                                    match (&f.selection_set, t) {
                                                        (Some(s), Some(t)) => Some(Cursor::At { sel: s, ty: t }),
                                                        _ => None,
                                                    }
                                                }
                                                _ => None,
                                            })
                                            .unwrap_or(Cursor::Lost)
                                    }
                                }
                            }
                        }
                    };
                    self.walk(selections, list, next, env, depth, owner, &here);
                }
                "ImperativelyLoadedField" => {
                    let name = node.get("name").and_then(|n| n.as_str()).unwrap_or("?");
                    self.check_ref(RefKind::Imperative, name, node.get("refetchQueryIndex"), list, &cursor, &here, depth, owner);
                }
                _ => {}
            }
        }
    }
}

/// `@exposeField(field: "a.b", as: "x")` directives of the reference schema: name -> path.
fn exposed_fields(schema: &refgql::Schema) -> BTreeMap<String, Vec<String>> {
    let mut m = BTreeMap::new();
    for t in schema.types.values() {
        for d in &t.directives {
            if d.name != "exposeField" {
                continue;
            }
            let arg = |n: &str| {
                d.arguments.iter().find(|a| a.name == n).and_then(|a| match &a.value {
                    refgql::Value::String(s) => Some(s.value.clone()),
                    _ => None,
                })
            };
            let Some(field) = arg("field") else { continue };
            let path: Vec<String> = field.split('.').map(|s| s.to_string()).collect();
            let name = arg("as").unwrap_or_else(|| path[0].clone());
            m.insert(name, path);
        }
    }
    m
}

pub fn oracle(c: &Compiled, model: Option<&Project>) -> CaseInfo {
    let mut info = CaseInfo::default();
    let entries = match ops::entries(c) {
        Ok(e) => e,
        Err(f) => {
            info.fails.push(f);
            return info;
        }
    };
    if ops::persisted_file_name(c).is_some() {
        info.label("persisted-documents:operation-texts-not-in-artifacts");
    }
    let exposed = exposed_fields(&c.schema);
    let mut refs = 0;
    let mut positioned = 0;
    let mut max_depth = 0;
    let mut owners: BTreeMap<String, BTreeSet<String>> = BTreeMap::new();
    let mut key = String::new();
    for e in &entries {
        let entry_parent = e.dir.split('/').next().unwrap_or("").to_string();
        let entry_op = e.query.text().and_then(single_operation);
        let reader_path = format!("{}/resolver_reader.ts", e.dir);
        let Some(reader) = c.set.default_of(&reader_path) else {
            info.fail("artifact-shape:entrypoint-reader", reader_path.clone());
            continue;
        };
        let Some(ast) = c.set.deref(reader).call0().get("readerAst").map(|a| c.set.deref(a)).and_then(|a| a.as_array()) else {
            info.fail("artifact-shape:entrypoint-reader-ast", reader_path.clone());
            continue;
        };
        // initial position: the root of the operation, or node(id) { ... on T } for the entrypoint
        // of a @loadable field on T
        let cursor = match &entry_op {
            None => Cursor::Lost,
            Some(o) => {
                let root = c.schema.root_type(o.kind).unwrap_or("").to_string();
                if root == entry_parent {
                    Cursor::At { sel: &o.selection_set, ty: root }
                } else {
                    let inner = o.selection_set.items.iter().find_map(|i| match i {
                        Selection::Field(f) if f.name == "node" => f.selection_set.as_ref(),
                        _ => None,
                    });
                    inner
                        .and_then(|s| {
                            s.items.iter().find_map(|i| match i {
                                Selection::InlineFragment(fr) if fr.type_condition.as_deref() == Some(entry_parent.as_str()) => Some(Cursor::At { sel: &fr.selection_set, ty: entry_parent.clone() }),
                                _ => None,
                            })
                        })
                        .unwrap_or(Cursor::Lost)
                }
            }
        };
        let env: Env = entry_op.as_ref().map(|o| o.variable_definitions.iter().map(|v| (v.name.clone(), canon_gql(&refgql::Value::Variable(v.name.clone())))).collect()).unwrap_or_default();
        // variables of the entrypoint field that the operation does not declare (unused ones) still
        // denote themselves
        let list: Vec<&OpArtifact> = e.refetch.iter().collect();
        let mut w = Walk {
            c,
            model,
            entry_dir: e.dir.clone(),
            entry_parent,
            exposed: &exposed,
            fails: vec![],
            refs: 0,
            refs_positioned: 0,
            max_resolver_depth_at_ref: 0,
            owners_with_refs: BTreeSet::new(),
            visiting: vec![reader_path.clone()],
        };
        w.walk(ast, &list, cursor, &env, 0, &reader_path, "");
        refs += w.refs;
        positioned += w.refs_positioned;
        max_depth = max_depth.max(w.max_resolver_depth_at_ref);
        for o in &w.owners_with_refs {
            owners.entry(o.clone()).or_default().insert(e.dir.clone());
        }
        if w.refs > 0 {
            key.push_str(&c.artifacts.get(&e.path).cloned().unwrap_or_default());
            for r in &e.refetch {
                key.push_str(r.text().unwrap_or(""));
            }
        }
        for (sig, msg) in w.fails {
            info.fail(sig, msg);
        }
    }
    info.count("refetch-references-followed", refs);
    info.count("refetch-references-with-known-position", positioned);
    let shared = owners.values().any(|s| s.len() >= 2);
    if refs > 0 {
        info.label("has-refetch-references");
        if max_depth >= 2 {
            info.label("reached-through->=2-client-fields");
        }
        if shared {
            info.label("reader-with-references-shared-by->=2-entrypoints");
        }
        if max_depth >= 2 || shared {
            info.nontrivial = Some(key);
        }
    }
    info
}

pub fn run(args: &Args) {
    let report = Report::new(
        args,
        "exploration",
        "one case = one accepted program (generated, four tiers, or checked-in); the refetch references of every entrypoint are \
         followed through the module graph; non-trivial = a refetchable selection (__refetch, exposed field, client pointer) is \
         reached through >= 2 client fields, or a reader that contains one is reached from >= 2 entrypoints; distinct by the \
         entrypoint + refetch texts involved",
    );
    report.assumption("the position of a reference is tracked through the entrypoint's operation text; where it cannot be (below a client pointer, unresolvable variables) only the index, the operation name and the wrapper are judged");
    let ex = ArtExclusions { no_persisted: true, refetch_heavy: true, ..driver::negative_int_exclusion() };
    driver::run_single(args, &report, 30_000, 300_000, &ex, &oracle);
    report.finish();
}
