//! C26 — persisted document ids match the documents they name.
//!
//! Domain: accepted generated programs (all tiers) and the four checked-in projects, each compiled
//! with persisted documents off (build A) and on (build B) for configurations drawn from
//! {md5, sha256} x {extra info on/off} x {default file name, custom file name}.
//! Oracle: (1) every operation of B is a `PersistedOperation` whose `operationId` is a key of the
//! persisted-documents file; (2) `hash_alg(document)` — computed here with the md-5 / sha2 crates on
//! the document string read back from the JSON file — equals its key; (3) the refgql token stream
//! of the document equals that of the operation text the same artifact carries in A; (4) the key
//! set equals the set of referenced ids.
use crate::driver::{self, ArtExclusions, Compiled};
use crate::ops::{self, Operation};
use gen_project::cases::{self, CaseSpec};
use md5::{Digest, Md5};
use serde_json::{json, Value};
use sha2::Sha256;
use std::collections::{BTreeMap, BTreeSet};
use vcore::{Args, Fail, Report};

fn hex(bytes: &[u8]) -> String {
    bytes.iter().map(|b| format!("{b:02x}")).collect()
}

pub fn hash(alg: &str, data: &str) -> String {
    match alg {
        "md5" => hex(&Md5::digest(data.as_bytes())),
        _ => hex(&Sha256::digest(data.as_bytes())),
    }
}

/// Token stream modulo insignificant text (white space, commas, comments): (kind, value).
fn tokens(src: &str) -> Result<Vec<(refgql::TokenKind, String)>, String> {
    let lexed = refgql::lex(src, refgql::LexOptions::default()).map_err(|e| e.to_string())?;
    Ok(lexed
        .tokens
        .iter()
        .map(|t| (t.kind, t.value.clone().unwrap_or_else(|| src.get(t.span.start as usize..t.span.end as usize).unwrap_or("").to_string())))
        .collect())
}

#[derive(Clone, Debug)]
pub struct Combo {
    pub alg: &'static str,
    pub extra: bool,
    pub file: Option<&'static str>,
}

pub fn combo(i: usize) -> Combo {
    Combo { alg: if i & 1 == 0 { "md5" } else { "sha256" }, extra: i & 2 != 0, file: if i & 4 != 0 { Some("custom_persisted.json") } else { None } }
}

impl Combo {
    pub fn name(&self) -> String {
        format!("{}{}{}", self.alg, if self.extra { "+extra" } else { "" }, if self.file.is_some() { "+custom-file" } else { "" })
    }
}

/// The project files with `options.persisted_documents` set (or removed).
pub fn with_persisted(files: &BTreeMap<String, String>, c: Option<&Combo>) -> Result<BTreeMap<String, String>, Fail> {
    let mut out = files.clone();
    let text = files.get("isograph.config.json").ok_or_else(|| Fail::new("harness:no-config", ""))?;
    let mut cfg: Value = serde_json::from_str(text).map_err(|e| Fail::new("harness:config-json", e.to_string()))?;
    if !cfg["options"].is_object() {
        cfg["options"] = json!({});
    }
    let options = cfg["options"].as_object_mut().unwrap();
    match c {
        None => {
            options.remove("persisted_documents");
        }
        Some(c) => {
            let mut pd = serde_json::Map::new();
            pd.insert("algorithm".into(), json!(c.alg));
            pd.insert("include_extra_info".into(), json!(c.extra));
            if let Some(f) = c.file {
                pd.insert("file".into(), json!(f));
            }
            options.insert("persisted_documents".into(), Value::Object(pd));
        }
    }
    out.insert("isograph.config.json".into(), serde_json::to_string_pretty(&cfg).unwrap());
    Ok(out)
}

pub struct Outcome {
    pub nontrivial: bool,
    pub n_ops: usize,
    pub n_docs: usize,
    pub fails: Vec<Fail>,
}

pub fn compare(a: &Compiled, b: &Compiled, c: &Combo) -> Outcome {
    let mut fails = vec![];
    let mut out = Outcome { nontrivial: false, n_ops: 0, n_docs: 0, fails: vec![] };
    let (ea, eb) = match (ops::all_ops(a), ops::all_ops(b)) {
        (Ok(x), Ok(y)) => (x, y),
        (Err(f), _) | (_, Err(f)) => {
            out.fails.push(f);
            return out;
        }
    };
    let docs = match ops::persisted_documents(b) {
        Ok(Some(d)) => d,
        Ok(None) => {
            out.fails.push(Fail::new("harness:persisted-not-configured", ""));
            return out;
        }
        Err(f) => {
            out.fails.push(f);
            return out;
        }
    };
    out.n_ops = eb.len();
    out.n_docs = docs.len();
    // (2) key = hash(document)
    for (k, d) in &docs {
        let h = hash(c.alg, d);
        if &h != k {
            fails.push(Fail::new("key-is-not-the-hash-of-its-document", format!("{}: key {k}, {}(document) = {h}\ndocument: {d}", c.name(), c.alg)));
        }
    }
    let texts_a: BTreeMap<(String, Option<usize>), &ops::OpArtifact> = ea.iter().map(|o| ((o.entry.clone(), o.index), o)).collect();
    let mut referenced = BTreeSet::new();
    let mut has_refetch = false;
    for op in &eb {
        if op.index.is_some() {
            has_refetch = true;
        }
        match &op.operation {
            Operation::Text(_) => fails.push(Fail::new("operation-not-persisted", format!("{}: {} still carries its text", c.name(), op.name()))),
            Operation::Persisted { id, extra } => {
                referenced.insert(id.clone());
                let _ = extra; // the property says nothing about extraInfo
                // (1)
                let Some(doc) = docs.get(id) else {
                    fails.push(Fail::new("operation-id-not-in-file", format!("{}: {} sends {id}; keys: {:?}", c.name(), op.name(), docs.keys().collect::<Vec<_>>())));
                    continue;
                };
                // (3)
                let Some(oa) = texts_a.get(&(op.entry.clone(), op.index)) else {
                    fails.push(Fail::new("operation-only-with-persistence", format!("{}: {} has no counterpart in the build without persisted documents", c.name(), op.name())));
                    continue;
                };
                let Some(text_a) = oa.text() else { continue };
                match (tokens(doc), tokens(text_a)) {
                    (Ok(x), Ok(y)) if x == y => {}
                    (Ok(_), Ok(_)) => fails.push(Fail::new("document-differs-from-operation", format!("{}: {}\ndocument : {doc}\noperation: {text_a}", c.name(), op.name()))),
                    // a text refgql cannot even lex is C09's business; then the two must at least be lexable alike
                    (Err(_), Err(_)) => {}
                    (x, y) => fails.push(Fail::new("document-differs-from-operation:lexing", format!("{}: {} document lexes: {:?}, operation lexes: {:?}", c.name(), op.name(), x.is_ok(), y.is_ok()))),
                }
            }
        }
    }
    for op in &ea {
        if !eb.iter().any(|o| o.entry == op.entry && o.index == op.index) {
            fails.push(Fail::new("operation-only-without-persistence", format!("{}: {}", c.name(), op.name())));
        }
    }
    // (4)
    let keys: BTreeSet<String> = docs.keys().cloned().collect();
    if keys != referenced {
        fails.push(Fail::new(
            "recorded-documents-differ-from-referenced-ids",
            format!("{}: only in file {:?}; only referenced {:?}", c.name(), keys.difference(&referenced).collect::<Vec<_>>(), referenced.difference(&keys).collect::<Vec<_>>()),
        ));
    }
    out.nontrivial = !eb.is_empty() && (has_refetch || docs.len() < eb.len());
    out.fails = fails;
    out
}

/// Compile A (off) and B (on, combo c); Ok(label) or the first failure that is not a listed finding.
fn check(report: &Report, files: &BTreeMap<String, String>, c: &Combo, origin: &str, strict: bool) -> Result<(), Fail> {
    let fa = with_persisted(files, None)?;
    let fb = with_persisted(files, Some(c))?;
    let a = match driver::compile_files(&fa, strict)? {
        Ok(x) => x,
        Err(s) => {
            report.case(None::<&str>, &[origin, s.label()]);
            if report.strict {
                return Err(Fail::new("replay:not-accepted", s.detail().to_string()));
            }
            return Ok(());
        }
    };
    let b = match driver::compile_files(&fb, strict)? {
        Ok(x) => x,
        Err(s) => {
            // accepted without persisted documents, not accepted with: not what C26 is about, but worth seeing
            report.case(None::<&str>, &[origin, "accepted-only-without-persisted-documents", s.label()]);
            return Ok(());
        }
    };
    let o = compare(&a, &b, c);
    let key = format!("{:?}", fb);
    report.case(
        if o.nontrivial { Some(&key) } else { None },
        &[origin, "accepted", &format!("config:{}", c.name()), if o.n_ops == 0 { "no-operations" } else if o.n_docs < o.n_ops { "documents-shared-by-operations" } else { "one-document-per-operation" }],
    );
    report.sample(&format!("{}/{}", origin, c.name()), 1, || json!({"config": c.name(), "operations": o.n_ops, "documents": o.n_docs, "files": fb}));
    report.label_n("operations", o.n_ops as u64);
    report.label_n("documents", o.n_docs as u64);
    for f in o.fails {
        report.tolerate(Err(f))?;
    }
    Ok(())
}

fn combos_of(spec: &CaseSpec) -> [Combo; 2] {
    let i = (spec.variant as usize / 4) % 8;
    [combo(i), combo((i + 3) % 8)]
}

pub fn run(args: &Args) {
    let report = Report::new(
        args,
        "exploration",
        "one case = (accepted program, persisted-documents configuration): the program is compiled without and with persisted \
         documents ({md5, sha256} x extra info x custom file name; two configurations per generated program, all eight for the \
         checked-in projects); non-trivial = the program has at least one refetch query or two operations that share a document; \
         distinct by the project files incl. configuration",
    );
    report.engine("inproc");
    report.assumption("md-5 0.10 / sha2 0.10 compute MD5 / SHA-256; the hashed bytes are the UTF-8 bytes of the document string parsed from the JSON file");
    report.assumption("programs the compiler does not accept without persisted documents are outside the domain (skipped, counted)");
    let ex = ArtExclusions { no_persisted: true, ..driver::negative_int_exclusion() };
    let run_input = |input: &Value| {
        let files = cases::load_case_files(input).files;
        let i = input["combo"].as_u64().unwrap_or(0) as usize;
        check(&report, &files, &combo(i), "origin:replay", false)
    };
    if let Some(path) = &args.replay {
        let v = vcore::read_replay(path);
        report.case(Some("replay-marker"), &[]);
        if let Err(f) = run_input(&v["input"]) {
            report.violation("replay", &f, v["input"].clone());
        }
        report.finish();
    }
    report.run_regressions(run_input);
    for (name, files) in driver::demo_projects() {
        for i in 0..8 {
            if let Err(f) = check(&report, &files, &combo(i), "origin:checked-in-project", false) {
                report.violation(&format!("demo-{name}"), &f, json!({"project": name, "combo": i, "files": files}));
                break;
            }
        }
    }
    let n = args.tier.pick(8000, 80_000);
    let res = vcore::run_prop_parallel(&report, "projects", n, vcore::num_workers(), driver::art_case_strategy, |spec| {
        driver::count_excluded(&report, spec, &ex);
        let case = driver::gen_case(spec, &ex);
        for c in combos_of(spec) {
            check(&report, &case.rendered.files, &c, &format!("tier:{}", case.tier), true)?;
        }
        Ok(())
    });
    if let Some((spec, fail)) = res {
        let case = driver::gen_case(&spec, &ex);
        // find the configuration that fails
        let mut which = 0;
        for (k, c) in combos_of(&spec).iter().enumerate() {
            let i = ((spec.variant as usize / 4) % 8 + 3 * k) % 8;
            let quiet = Report::new(args, "exploration", "");
            if check(&quiet, &case.rendered.files, c, "shrunk", true).is_err() {
                which = i;
                break;
            }
        }
        report.violation("projects", &fail, json!({"combo": which, "files": case.rendered.files}));
    }
    report.finish();
}
