//! C15 — merged operations are independent of how selections are arranged.
//!
//! Domain: metamorphic pairs (P, P') of accepted generated programs, P' = P with (a) every
//! selection set re-ordered, (b) one selection repeated under a fresh alias, (c) part of a selection
//! set moved into a fresh client field selected at the same place (variables passed as arguments
//! under new names), or (d) all three in sequence.
//! Oracle: P and P' have the same entrypoints, and for every entrypoint the multiset of
//! (cooked operation text, evaluated normalization AST) pairs — the entrypoint query plus its
//! refetch queries — is identical.
use crate::driver::{self, ArtExclusions, Compiled};
use crate::ops;
use gen_project::cases::{self, CaseSpec};
use gen_project::tape::Tape;
use gen_project::variants::{self, VariantInfo, VariantKind, ALL_VARIANTS};
use gen_project::{render, Project};
use serde_json::{json, Value};
use std::collections::BTreeMap;
use tsread::Val;
use vcore::{Args, Fail, Report};

type OpsByEntry = BTreeMap<String, Vec<(String, String)>>;

fn ops_by_entry(c: &Compiled) -> Result<OpsByEntry, Fail> {
    let mut m = BTreeMap::new();
    for e in ops::entries(c)? {
        let mut v = vec![];
        for op in std::iter::once(&e.query).chain(e.refetch.iter()) {
            let text = match &op.operation {
                ops::Operation::Text(t) => t.clone(),
                ops::Operation::Persisted { id, .. } => format!("persisted:{id}"),
            };
            v.push((text, Val::Array(op.norm.clone()).to_json().to_string()));
        }
        v.sort();
        m.insert(e.dir.clone(), v);
    }
    Ok(m)
}

pub fn compare(kind: &str, a: &OpsByEntry, b: &OpsByEntry) -> Result<(), Fail> {
    let ka: Vec<&String> = a.keys().collect();
    let kb: Vec<&String> = b.keys().collect();
    if ka != kb {
        return Err(Fail::new(format!("{kind}:entrypoints-differ"), format!("P: {ka:?}\nP': {kb:?}")));
    }
    for (k, va) in a {
        let vb = &b[k];
        if va == vb {
            continue;
        }
        if va.len() != vb.len() {
            return Err(Fail::new(
                format!("{kind}:number-of-operations-differs"),
                format!("entrypoint {k}: P has {} operations, P' has {}\nP: {:#?}\nP': {:#?}", va.len(), vb.len(), va.iter().map(|x| &x.0).collect::<Vec<_>>(), vb.iter().map(|x| &x.0).collect::<Vec<_>>()),
            ));
        }
        let ta: Vec<&String> = va.iter().map(|x| &x.0).collect();
        let tb: Vec<&String> = vb.iter().map(|x| &x.0).collect();
        if ta != tb {
            let i = ta.iter().zip(tb.iter()).position(|(x, y)| x != y).unwrap_or(0);
            return Err(Fail::new(format!("{kind}:operation-text-differs"), format!("entrypoint {k}:\nP : {}\nP': {}", ta[i], tb[i])));
        }
        let i = va.iter().zip(vb.iter()).position(|(x, y)| x != y).unwrap_or(0);
        return Err(Fail::new(format!("{kind}:normalization-ast-differs"), format!("entrypoint {k}: operation {}\nP : {}\nP': {}", va[i].0, va[i].1, vb[i].1)));
    }
    Ok(())
}

pub struct Pair {
    pub kind: String,
    pub tier: &'static str,
    pub base: Project,
    pub variant: Project,
    pub info: VariantInfo,
}

pub fn make_pair(spec: &CaseSpec, ex: &ArtExclusions) -> Option<Pair> {
    let case = driver::gen_case(spec, ex);
    let mut t = Tape::new(spec.mtape.clone());
    let sel = (spec.variant as usize / 4) % 4;
    let kinds: Vec<VariantKind> = if sel < 3 { vec![ALL_VARIANTS[sel]] } else { vec![VariantKind::Extract, VariantKind::DuplicateAlias, VariantKind::Permute] };
    let mut cur = case.project.clone();
    let mut info = VariantInfo::default();
    for k in &kinds {
        let (next, i) = variants::variant(&cur, *k, &mut t)?;
        cur = next;
        info.touched_args |= i.touched_args;
        info.touched_nested |= i.touched_nested;
        info.note = if info.note.is_empty() { i.note } else { format!("{}; {}", info.note, i.note) };
    }
    let kind = if sel < 3 { format!("{:?}", kinds[0]).to_lowercase() } else { "all-three".to_string() };
    Some(Pair { kind, tier: case.tier, base: case.project, variant: cur, info })
}

fn check_files(report: &Report, kind: &str, a: &BTreeMap<String, String>, b: &BTreeMap<String, String>, strict: bool) -> Result<&'static str, Fail> {
    let ca = match driver::compile_files(a, strict)? {
        Ok(c) => c,
        Err(s) => {
            report.label(&format!("P:{}", s.label()));
            return Ok("skip:P-not-accepted");
        }
    };
    let cb = match driver::compile_files(b, strict)? {
        Ok(c) => c,
        Err(s) => {
            report.label(&format!("P':{}", s.label()));
            if std::env::var("VERIF_SKIP_DETAIL").is_ok() {
                let first: String = s.detail().lines().next().unwrap_or("").chars().take(140).collect();
                report.label(&format!("skip-detail:{kind}:{first}"));
            }
            return Ok("skip:variant-not-accepted");
        }
    };
    let oa = ops_by_entry(&ca)?;
    let ob = ops_by_entry(&cb)?;
    compare(kind, &oa, &ob)?;
    Ok(if oa.is_empty() { "ok:no-entrypoint" } else { "ok:compared" })
}

fn pair_json(p: &Pair) -> Value {
    json!({"kind": p.kind, "tier": p.tier, "note": p.info.note, "files": render(&p.base).files, "files2": render(&p.variant).files})
}

pub fn run(args: &Args) {
    let report = Report::new(
        args,
        "exploration",
        "one case = a pair (P, P') of generated programs, P' obtained by permuting every selection set / repeating a selection \
         under a fresh alias / extracting part of a selection set into a new client field / all three; non-trivial = both accepted, \
         at least one entrypoint compared, and the transformation touched a selection with arguments or a nested level; distinct by \
         the files of P'",
    );
    report.engine("inproc");
    report.assumption("pairs in which P or P' is not accepted are outside the domain: skipped and counted");
    let ex = ArtExclusions { no_persisted: true, ..driver::negative_int_exclusion() };
    let run_input = |input: &Value| {
        let a = cases::load_case_files(input).files;
        let b = cases::load_case_files(&json!({"files": input["files2"]})).files;
        let kind = input["kind"].as_str().unwrap_or("replay").to_string();
        match check_files(&report, &kind, &a, &b, false) {
            Ok(o) if o.starts_with("skip") && report.strict => Err(Fail::new("replay:not-accepted", o.to_string())),
            Ok(_) => Ok(()),
            Err(f) => Err(f),
        }
    };
    if let Some(path) = &args.replay {
        let v = vcore::read_replay(path);
        report.case(Some(&v["input"].to_string()), &["replay"]);
        report.case(Some("replay-marker"), &[]);
        if let Err(f) = run_input(&v["input"]) {
            report.violation("replay", &f, v["input"].clone());
        }
        report.finish();
    }
    report.run_regressions(run_input);
    let n = args.tier.pick(24_000, 240_000);
    let res = vcore::run_prop_parallel(&report, "pairs", n, vcore::num_workers(), driver::art_case_strategy, |spec| {
        driver::count_excluded(&report, spec, &ex);
        let Some(pair) = make_pair(spec, &ex) else {
            let case = driver::gen_case(spec, &ex);
            report.case(None::<&str>, &["no-place-for-the-transformation", if case.project.decls.is_empty() { "no-place:project-without-declarations" } else { "no-place:other" }]);
            return Ok(());
        };
        let a = render(&pair.base).files;
        let b = render(&pair.variant).files;
        let r = check_files(&report, &pair.kind, &a, &b, true);
        let outcome = match &r {
            Ok(o) => *o,
            Err(_) => "differs",
        };
        let nontrivial = outcome == "ok:compared" && (pair.info.touched_args || pair.info.touched_nested);
        let key = format!("{b:?}");
        report.case(
            if nontrivial { Some(&key) } else { None },
            &[&format!("kind:{}", pair.kind), &format!("tier:{}", pair.tier), &format!("outcome:{outcome}"), if pair.info.touched_args { "touched:arguments" } else { "touched:no-arguments" }, if pair.info.touched_nested { "touched:nested-level" } else { "touched:top-level-only" }],
        );
        report.sample(&format!("{}/{outcome}", pair.kind), 1, || pair_json(&pair));
        report.tolerate(r.map(|_| ()))
    });
    if let Some((spec, fail)) = res {
        if let Some(pair) = make_pair(&spec, &ex) {
            report.violation("pairs", &fail, pair_json(&pair));
        }
    }
    report.finish();
}
