//! Shared driver of the artifact-level checks: project files -> scratch directory -> in-process
//! compile -> `tsread::ArtifactSet` + reference schema (refgql, built from the very SDL files the
//! compiler was given) -> the property's oracle. Also: the four checked-in projects, the generated
//! case (G-PROJECT) and the replay format `{"files": {rel path: content}, "model": Project|null}`.
use gen_project::cases::{self, CaseSpec, Exclusions};
use gen_project::compile::{self, Outcome};
use gen_project::{build_project, render, GenConfig, Project, Rendered};
use serde_json::{json, Value};
use std::collections::BTreeMap;
use std::path::Path;
use std::sync::atomic::{AtomicU64, Ordering};
use tsread::ArtifactSet;
use vcore::{Args, Fail, Report};

static COUNTER: AtomicU64 = AtomicU64::new(0);

/// One accepted program with everything the oracles look at.
pub struct Compiled {
    pub files: BTreeMap<String, String>,
    pub artifacts: BTreeMap<String, String>,
    pub set: ArtifactSet,
    pub schema: refgql::Schema,
}

/// Why a program is outside the domain "accepted programs".
#[derive(Debug, Clone)]
pub enum Skip {
    Diagnostics(String),
    Setup(String),
    Panic(String),
}

impl Skip {
    pub fn label(&self) -> &'static str {
        match self {
            Skip::Diagnostics(_) => "skip:rejected-with-diagnostics",
            Skip::Setup(_) => "skip:setup-error",
            Skip::Panic(_) => "skip:compiler-panic(C08)",
        }
    }
    pub fn detail(&self) -> &str {
        match self {
            Skip::Diagnostics(s) | Skip::Setup(s) | Skip::Panic(s) => s,
        }
    }
}

fn norm_rel(p: &str) -> String {
    let mut out: Vec<&str> = vec![];
    for seg in p.split('/') {
        match seg {
            "" | "." => {}
            ".." => {
                out.pop();
            }
            s => out.push(s),
        }
    }
    out.join("/")
}

/// The SDL files named by `isograph.config.json` (schema first, then the extensions, in order).
pub fn schema_sources(files: &BTreeMap<String, String>) -> Result<Vec<(String, String)>, String> {
    let cfg_text = files.get("isograph.config.json").ok_or("no isograph.config.json")?;
    let cfg: Value = serde_json::from_str(cfg_text).map_err(|e| format!("config: {e}"))?;
    let mut names = vec![cfg["schema"].as_str().ok_or("config without schema")?.to_string()];
    if let Some(ext) = cfg["schema_extensions"].as_array() {
        for e in ext {
            names.push(e.as_str().ok_or("schema_extensions entry is not a string")?.to_string());
        }
    }
    let mut out = vec![];
    for n in names {
        let rel = norm_rel(&n);
        let text = files.get(&rel).ok_or_else(|| format!("schema file {rel} is not part of the project"))?;
        out.push((rel, text.clone()));
    }
    Ok(out)
}

/// Reference schema from the very SDL given to the compiler. `@exposeField` (an isograph-only
/// directive on `extend type`) needs no special handling: refgql records directives of type
/// definitions / extensions without requiring a definition, and the directive adds no server field.
pub fn reference_schema(files: &BTreeMap<String, String>, strict: bool) -> Result<refgql::Schema, String> {
    let sources = schema_sources(files)?;
    let mut docs = vec![];
    for (name, text) in &sources {
        // the checked-in schemas use post-2018 syntax (interfaces implementing interfaces)
        let opts = refgql::ParseOptions { post_2018: true, lenient: refgql::Leniency::all(), ..Default::default() };
        let (doc, _) = refgql::parse_with(text, refgql::DocumentKind::TypeSystem, opts).map_err(|e| format!("{name}: {e}"))?;
        docs.push(doc);
    }
    let refs: Vec<&refgql::Document> = docs.iter().collect();
    let (schema, errs) = refgql::Schema::build_lenient(&refs);
    if strict && !errs.is_empty() {
        return Err(format!("reference schema errors: {:?}", errs.iter().map(|e| e.message.clone()).collect::<Vec<_>>()));
    }
    Ok(schema)
}

pub fn compile_outcome(files: &BTreeMap<String, String>) -> Outcome {
    let n = COUNTER.fetch_add(1, Ordering::SeqCst);
    let dir = compile::fresh_dir("art", n);
    compile::write_project(&dir, &Rendered { files: files.clone() });
    let o = compile::compile_inproc(&dir);
    let _ = std::fs::remove_dir_all(&dir);
    o
}

/// Compile in-process. `Err(Skip)` = not accepted (outside every property's domain here).
/// `Err` of the outer result = harness problem (reference schema could not be built).
pub fn compile_files(files: &BTreeMap<String, String>, strict_schema: bool) -> Result<Result<Compiled, Skip>, Fail> {
    let artifacts = match compile_outcome(files) {
        Outcome::Artifacts(m) => m,
        Outcome::Diagnostics(d) => return Ok(Err(Skip::Diagnostics(d.join("\n")))),
        Outcome::SetupError(e) => return Ok(Err(Skip::Setup(e))),
        Outcome::Panic(p) => return Ok(Err(Skip::Panic(p))),
    };
    let schema = reference_schema(files, strict_schema).map_err(|e| Fail::new("harness:reference-schema", e))?;
    let set = ArtifactSet::from_files(artifacts.iter().map(|(k, v)| (k.clone(), v.clone())));
    Ok(Ok(Compiled { files: files.clone(), artifacts, set, schema }))
}

/// The checked-in projects, copied file by file (config, schema, extensions, sources).
pub fn demo_projects() -> Vec<(String, BTreeMap<String, String>)> {
    let repo = vcore::repo_root();
    let mut out = vec![];
    for (name, root) in [("pet-demo", "demos/pet-demo"), ("vite-demo", "demos/vite-demo"), ("github-demo", "demos/github-demo"), ("isograph-react", "libs/isograph-react")] {
        let base = repo.join(root);
        let mut files = BTreeMap::new();
        fn walk(base: &Path, d: &Path, files: &mut BTreeMap<String, String>) {
            let Ok(rd) = std::fs::read_dir(d) else { return };
            let mut entries: Vec<_> = rd.flatten().collect();
            entries.sort_by_key(|e| e.file_name());
            for e in entries {
                let p = e.path();
                let n = e.file_name().to_string_lossy().to_string();
                if n == "node_modules" || n == "__isograph" || n == ".next" || n == "dist" || n == "target" {
                    continue;
                }
                if p.is_dir() {
                    walk(base, &p, files);
                } else if ["ts", "tsx", "js", "jsx", "graphql", "json"].contains(&p.extension().and_then(|x| x.to_str()).unwrap_or("")) {
                    if n.ends_with(".json") && n != "isograph.config.json" {
                        continue;
                    }
                    if let Ok(s) = std::fs::read_to_string(&p) {
                        files.insert(p.strip_prefix(base).unwrap().to_string_lossy().to_string(), s);
                    }
                }
            }
        }
        walk(&base, &base, &mut files);
        if files.contains_key("isograph.config.json") {
            out.push((name.to_string(), files));
        }
    }
    out
}

/// A generated case: the typed model and its files.
#[derive(Clone)]
pub struct GenCase {
    pub tier: &'static str,
    pub project: Project,
    pub rendered: Rendered,
}

/// Known-finding exclusions shared by the artifact checks (each check counts what it excluded).
#[derive(Clone, Default)]
pub struct ArtExclusions {
    pub base: Exclusions,
    /// never enable persisted documents (C09/C11/C15/C25/C27 read the operation text from the artifacts)
    pub no_persisted: bool,
    /// C25: only the advanced / everything tiers, more declarations, refetchable selections weighted up
    pub refetch_heavy: bool,
    /// see `gen_config`
    pub exclude_negative_ints: bool,
    /// (finding signature, does the un-excluded project contain the excluded construct?)
    pub excluded_signatures: Vec<(&'static str, fn(&Project) -> bool)>,
}

pub fn gen_config(spec: &CaseSpec, ex: &ArtExclusions) -> (&'static str, GenConfig) {
    let sel = if ex.refetch_heavy { 2 + (spec.variant as usize % 2) } else { spec.variant as usize };
    let (tier, mut cfg) = cases::tier_config(sel, &ex.base);
    if cfg.advanced {
        cfg.refetch_fields = true;
    }
    if ex.refetch_heavy {
        cfg.ref_weight = 2;
        cfg.max_decls = 9;
    }
    // recorded finding `illegal-name:negative-int` (a response alias with `-` in it: the operation
    // text does not parse, nor does raw_response_type.ts): excluded by construction in three
    // quarters of the cases so that the search continues behind it, kept in the rest so that every
    // run re-observes it
    if tier == "everything" && (spec.variant as usize / 256) % 4 == 0 {
        // integer literals beyond the 32-bit range: the compiler must reject them for Int
        // positions (then the program is outside the domain) or print them for Float / ID positions
        cfg.big_ints = true;
    }
    if ex.exclude_negative_ints && (spec.variant as usize / 64) % 4 != 0 {
        cfg.negative_ints = false;
    }
    (tier, cfg)
}

fn val_has_negative_int(v: &gen_project::Val) -> bool {
    match v {
        gen_project::Val::Int(i) => *i < 0,
        gen_project::Val::Obj(f) => f.iter().any(|(_, v)| val_has_negative_int(v)),
        _ => false,
    }
}

fn sel_has_negative_int(s: &gen_project::Sel) -> bool {
    s.args.iter().any(|(_, v)| val_has_negative_int(v)) || s.children.as_ref().map(|c| c.iter().any(sel_has_negative_int)).unwrap_or(false)
}

/// Does a selection of the project pass a negative integer literal?
pub fn has_negative_int(p: &Project) -> bool {
    p.decls.iter().any(|d| d.selections.iter().any(sel_has_negative_int))
}

/// The exclusions every artifact check applies for the recorded finding `illegal-name:negative-int`.
pub fn negative_int_exclusion() -> ArtExclusions {
    ArtExclusions { exclude_negative_ints: true, excluded_signatures: vec![("illegal-name:negative-int", has_negative_int)], ..Default::default() }
}

pub fn gen_case(spec: &CaseSpec, ex: &ArtExclusions) -> GenCase {
    let (tier, cfg) = gen_config(spec, ex);
    let mut project = build_project(spec.tape.clone(), &cfg);
    if ex.no_persisted {
        project.config.persisted = None;
    }
    let rendered = render(&project);
    GenCase { tier, project, rendered }
}

/// Count what the exclusion switches removed: the same tape is built without the switches and
/// inspected for the excluded construct.
pub fn count_excluded(report: &Report, spec: &CaseSpec, ex: &ArtExclusions) {
    if ex.excluded_signatures.is_empty() {
        return;
    }
    let (_, cfg_excluded) = gen_config(spec, ex);
    let none = ArtExclusions { refetch_heavy: ex.refetch_heavy, ..Default::default() };
    let (_, cfg) = gen_config(spec, &none);
    if cfg_excluded.negative_ints == cfg.negative_ints {
        // nothing was switched off for this case
        return;
    }
    let p = build_project(spec.tape.clone(), &cfg);
    for (sig, pred) in &ex.excluded_signatures {
        if pred(&p) {
            report.excluded(sig);
        }
    }
}

/// Case strategy of the artifact checks: as `cases::case_strategy`, but the project tape is never
/// shorter than the builder's typical consumption (an exhausted tape answers every choice with 0,
/// and the first such answer is "no declarations": a third of the shared strategy's projects have
/// no entrypoint at all).
pub fn art_case_strategy() -> impl proptest::strategy::Strategy<Value = CaseSpec> {
    use proptest::prelude::*;
    (prop::collection::vec(any::<u16>(), 160..=480), any::<u16>(), prop::collection::vec(any::<u16>(), 8..32))
        .prop_map(|(tape, variant, mtape)| CaseSpec { tape, variant, mtape })
}

pub fn case_json(files: &BTreeMap<String, String>, model: Option<&Project>) -> Value {
    json!({ "files": files, "model": model.map(|m| serde_json::to_value(m).unwrap()) })
}

pub fn load_case(input: &Value) -> (BTreeMap<String, String>, Option<Project>) {
    let files = cases::load_case_files(input).files;
    let model = input.get("model").and_then(|m| if m.is_null() { None } else { serde_json::from_value::<Project>(m.clone()).ok() });
    (files, model)
}

/// What an oracle reports about one accepted program.
#[derive(Default)]
pub struct CaseInfo {
    /// Some(key) when the case is non-trivial by the check's rule
    pub nontrivial: Option<String>,
    pub labels: Vec<String>,
    /// every violation found in the program (root-cause signatures)
    pub fails: Vec<Fail>,
    /// histogram increments (label, n)
    pub counts: Vec<(String, u64)>,
    /// (kind, json) samples for the evidence file
    pub samples: Vec<(String, Value)>,
}

impl CaseInfo {
    pub fn fail(&mut self, sig: impl Into<String>, msg: impl Into<String>) {
        self.fails.push(Fail::new(sig, msg));
    }
    pub fn label(&mut self, l: impl Into<String>) {
        let l = l.into();
        if !self.labels.contains(&l) {
            self.labels.push(l);
        }
    }
    pub fn count(&mut self, l: impl Into<String>, n: u64) {
        self.counts.push((l.into(), n));
    }
}

pub type Oracle = dyn Fn(&Compiled, Option<&Project>) -> CaseInfo + Sync;

/// Run the oracle on one program; failures with a listed signature are tolerated one by one, the
/// first other failure is returned.
pub fn judge(report: &Report, files: &BTreeMap<String, String>, model: Option<&Project>, origin: &str, strict_schema: bool, oracle: &Oracle) -> Result<(), Fail> {
    let compiled = match compile_files(files, strict_schema)? {
        Ok(c) => c,
        Err(skip) => {
            report.case(None::<&str>, &[origin, skip.label()]);
            if let Ok(h) = std::env::var("VERIF_DUMP_HASH") {
                // development aid: write the files of one skipped program
                if format!("{:016x}", vcore::hash_of(&format!("{files:?}"))) == h {
                    let _ = std::fs::write("/dev/shm/art-dump.json", serde_json::to_string_pretty(&json!({"input": {"files": files}})).unwrap());
                }
            }
            if std::env::var("VERIF_SKIP_LOG").is_ok() {
                // development aid: one line per skipped program
                println!("SKIPLOG {} {:016x} {}", skip.label(), vcore::hash_of(&format!("{files:?}")), skip.detail().lines().next().unwrap_or("").chars().take(160).collect::<String>());
            }
            if std::env::var("VERIF_SKIP_DETAIL").is_ok() {
                // development aid: why was the program not accepted?
                let first: String = skip.detail().lines().next().unwrap_or("").chars().take(140).collect();
                report.label(&format!("skip-detail:{origin}:{first}"));
            }
            if report.strict {
                // the properties quantify over accepted programs: this one holds vacuously
                println!("NOTE: the program is not accepted by the compiler ({}): outside the property's domain\n{}", skip.label(), skip.detail().lines().take(6).collect::<Vec<_>>().join("\n"));
            }
            return Ok(());
        }
    };
    let info = oracle(&compiled, model);
    let mut labels: Vec<&str> = vec![origin, "accepted"];
    labels.extend(info.labels.iter().map(|s| s.as_str()));
    report.case(info.nontrivial.as_ref(), &labels);
    for (l, n) in &info.counts {
        report.label_n(l, *n);
    }
    for (k, v) in info.samples {
        report.sample(&k, 2, || v);
    }
    for f in info.fails {
        report.tolerate(Err(f))?;
    }
    Ok(())
}

/// The common shape of C09 / C11 / C25 / C27: replay, regressions, checked-in projects, generated
/// projects.
pub fn run_single(args: &Args, report: &Report, quick: u32, thorough: u32, ex: &ArtExclusions, oracle: &Oracle) {
    report.engine("inproc");
    report.assumption("programs the compiler does not accept (diagnostics, or a crash = C08's business) are outside the domain: skipped and counted by reason");
    report.assumption("tsread evaluates generated artifacts as the JavaScript runtime would (cooked strings); refgql is the GraphQL reference");
    let run_input = |input: &Value| {
        let (files, model) = load_case(input);
        judge(report, &files, model.as_ref(), "origin:replay", false, oracle)
    };
    if let Some(path) = &args.replay {
        let v = vcore::read_replay(path);
        report.case(Some("replay-marker"), &[]);
        if let Err(f) = run_input(&v["input"]) {
            report.violation("replay", &f, v["input"].clone());
        }
        report.finish();
    }
    report.run_regressions(run_input);
    for (name, files) in demo_projects() {
        if let Err(f) = judge(report, &files, None, "origin:checked-in-project", false, oracle) {
            report.violation(&format!("demo-{name}"), &f, json!({"project": name, "files": files, "model": null}));
        }
    }
    let n = args.tier.pick(quick, thorough);
    let res = vcore::run_prop_parallel(report, "projects", n, vcore::num_workers(), art_case_strategy, |spec| {
        let case = gen_case(spec, ex);
        count_excluded(report, spec, ex);
        report.sample(&format!("generated/{}", case.tier), 1, || json!({"tier": case.tier, "files": case.rendered.files}));
        judge(report, &case.rendered.files, Some(&case.project), &format!("tier:{}", case.tier), true, oracle)
    });
    if let Some((spec, fail)) = res {
        let case = gen_case(&spec, ex);
        report.violation("projects", &fail, case_json(&case.rendered.files, Some(&case.project)));
    }
}
