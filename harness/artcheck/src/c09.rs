//! C09 — every generated operation is valid GraphQL for the schema.
//!
//! Domain: accepted G-PROJECT programs of all four tiers (literal / variable / enum / null /
//! object arguments, negative ints, strings with quotes, apostrophes, backslashes, non-ASCII,
//! variables nested in objects, abstract types, pointers, @loadable, __refetch, @exposeField) and
//! the four checked-in projects.
//! Oracle: every operation reachable from an entrypoint as the runtime reaches it (entrypoint
//! `networkRequestInfo.operation.text` -> cooked default export of `query_text.ts`; every
//! `nestedRefetchQueries[i].artifact` likewise; with persisted documents the document stored under
//! the `operationId`) parses with refgql and passes `refgql::validate` against the schema refgql
//! builds from the SDL files the compiler was given. relay's `parse_executable` is a logged second
//! opinion on syntax.
use crate::driver::{self, ArtExclusions, CaseInfo, Compiled};
use crate::ops;
use gen_project::Project;
use refgql::{Definition, Selection, SelectionSet};
use serde_json::json;
use vcore::{Args, Report};

fn has_args_or_fragments(s: &SelectionSet) -> bool {
    s.items.iter().any(|i| match i {
        Selection::Field(f) => !f.arguments.is_empty() || f.selection_set.as_ref().map(has_args_or_fragments).unwrap_or(false),
        Selection::InlineFragment(_) | Selection::FragmentSpread(_) => true,
    })
}

pub fn is_nontrivial(doc: &refgql::Document) -> bool {
    doc.definitions.iter().any(|d| match d {
        Definition::Operation(o) => !o.variable_definitions.is_empty() || has_args_or_fragments(&o.selection_set),
        _ => true,
    })
}

/// Root-cause signature of a syntax error: what the offending word looks like.
fn syntax_signature(text: &str, e: &refgql::SyntaxError) -> String {
    let bytes = text.as_bytes();
    let mut start = e.pos.min(text.len());
    while start > 0 && !(bytes[start - 1] as char).is_whitespace() {
        start -= 1;
    }
    let mut end = e.pos.min(text.len());
    while end < text.len() && !(bytes[end] as char).is_whitespace() {
        end += 1;
    }
    let word = text.get(start..end).unwrap_or("");
    // response keys embed argument values: `f____a___l_-5:` / `f____a___o_limit__l_-5_c:`
    if word.contains("__l_-") && word.ends_with(':') {
        return "illegal-name:negative-int".to_string();
    }
    format!("syntax:{:?}", e.kind)
}

fn validation_signature(text: &str, doc: &refgql::Document, e: &refgql::ValidationError) -> String {
    let _ = (text, doc);
    if e.rule == refgql::Rule::OverlappingFieldsCanBeMerged {
        if e.message.contains("differing arguments") || e.message.contains("are different fields") {
            // two different selections were given the same response key
            return "collision:response-key".to_string();
        }
        if e.message.contains("conflicting types") {
            return "merge-conflict:same-response-key-different-type-across-type-conditions".to_string();
        }
    }
    format!("validation:{:?}", e.rule)
}

pub fn relay_accepts(text: &str) -> bool {
    graphql_syntax::parse_executable(text, common::SourceLocationKey::generated()).is_ok()
}

pub fn oracle(c: &Compiled, _model: Option<&Project>) -> CaseInfo {
    let mut info = CaseInfo::default();
    let entries = match ops::entries(c) {
        Ok(e) => e,
        Err(f) => {
            info.fails.push(f);
            return info;
        }
    };
    let persisted = match ops::persisted_documents(c) {
        Ok(p) => p,
        Err(f) => {
            info.fails.push(f);
            return info;
        }
    };
    let mut nontrivial_texts: Vec<String> = vec![];
    let mut visited_text_files = std::collections::BTreeSet::new();
    let mut n_ops = 0u64;
    for e in &entries {
        for op in std::iter::once(&e.query).chain(e.refetch.iter()) {
            n_ops += 1;
            if let Some(p) = &op.text_path {
                visited_text_files.insert(p.clone());
            }
            let Some(text) = ops::effective_text(op, &persisted) else {
                // an id without a document is C26's business
                info.label("operation:persisted-id-without-document");
                continue;
            };
            info.label(match (&op.operation, op.index) {
                (ops::Operation::Text(_), None) => "operation:entrypoint-text",
                (ops::Operation::Text(_), Some(_)) => "operation:refetch-text",
                (ops::Operation::Persisted { .. }, _) => "operation:persisted-document",
            });
            let relay_ok = relay_accepts(&text);
            match refgql::parse_executable(&text) {
                Err(err) => {
                    if relay_ok {
                        info.label("second-opinion:relay-accepts-what-refgql-rejects");
                        info.samples.push(("relay-disagrees".into(), json!({"op": op.name(), "text": text, "refgql": err.to_string()})));
                    }
                    info.fail(syntax_signature(&text, &err), format!("{}: the operation text does not parse: {err}\nrelay parse_executable accepts: {relay_ok}\n{text}", op.name()));
                }
                Ok(doc) => {
                    if !relay_ok {
                        info.label("second-opinion:relay-rejects-what-refgql-accepts");
                        info.samples.push(("relay-disagrees".into(), json!({"op": op.name(), "text": text})));
                    }
                    let n_operations = doc.definitions.iter().filter(|d| matches!(d, Definition::Operation(_))).count();
                    if n_operations != 1 {
                        info.fail("not-exactly-one-operation", format!("{}: {n_operations} operations in\n{text}", op.name()));
                    }
                    let errors = refgql::validate(&c.schema, &doc);
                    for err in &errors {
                        info.fail(validation_signature(&text, &doc, err), format!("{}: {err}\n{text}", op.name()));
                    }
                    if is_nontrivial(&doc) {
                        nontrivial_texts.push(text.clone());
                    }
                }
            }
        }
    }
    // every query-text artifact is the text of some operation the runtime can reach
    for p in c.set.query_text_paths() {
        if !visited_text_files.contains(p) && persisted.is_none() {
            info.label("query-text-artifact-not-referenced");
        }
    }
    info.count("operations", n_ops);
    if !nontrivial_texts.is_empty() {
        info.count("operations:nontrivial", nontrivial_texts.len() as u64);
        info.nontrivial = Some(nontrivial_texts.join("\n"));
    }
    info
}

pub fn run(args: &Args) {
    let report = Report::new(
        args,
        "exploration",
        "one case = one accepted program (generated G-PROJECT project of tier core / client-graph / advanced / everything, or a \
         checked-in project); every operation reachable from its entrypoints is parsed and validated; non-trivial = at least one \
         operation has arguments, variables or inline fragments; distinct by the set of such operation texts",
    );
    report.assumption("relay's graphql_syntax::parse_executable is a logged second opinion only");
    let ex = exclusions(&report);
    driver::run_single(args, &report, 24_000, 240_000, &ex, &oracle);
    report.finish();
}

pub fn exclusions(report: &Report) -> ArtExclusions {
    let _ = report;
    driver::negative_int_exclusion()
}
