//! C27 — generated TypeScript types describe the data actually provided.
//!
//! Domain: accepted generated programs (all tiers) and the checked-in projects.
//! Oracle (a) `param_type.ts`: the `data` object type of every client field / pointer has exactly
//! one property per selection, named by alias-or-name, recursively (through server object fields,
//! `asX` refinements and client pointers); for server fields `| null` is present iff the schema
//! type is nullable, at every list level, and the `ReadonlyArray<…>` nesting equals the schema's
//! list nesting. The selection tree comes from the generator's model (generated programs) or from
//! the reader AST of the same field (checked-in projects: no model exists).
//! Oracle (b) `raw_response_type.ts`: the response-key tree with list depth equals the one derived
//! from the operation's refgql AST and the reference schema; at abstract positions (inline
//! fragments) one variant per type condition, compared as a multiset of shapes.
use crate::driver::{self, CaseInfo, Compiled};
use crate::ops;
use gen_project::{DeclKind, Project, Sel, Target};
use refgql::schema::TypeKind;
use refgql::{Definition, Selection, SelectionSet, Type};
use std::collections::BTreeMap;
use tsread::{PropKind, TsTy, Val};
use vcore::{Args, Report};

/// What a selection is, as far as the parameter type is concerned.
#[derive(Clone, Debug)]
enum NodeKind {
    ServerScalar,
    /// server object field
    ServerObject,
    /// `asX` refinement to the named type
    AsType(String),
    /// client pointer; target type when known
    Pointer(Option<String>),
    /// anything else (client field, __typename, __link, loadable, imperative): presence only
    Other,
}

#[derive(Clone, Debug)]
struct Node {
    key: String,
    field: String,
    kind: NodeKind,
    children: Vec<Node>,
}

fn nodes_from_model(p: &Project, sels: &[Sel]) -> Vec<Node> {
    sels.iter()
        .map(|s| {
            let kind = match &s.target {
                Target::ServerScalar => NodeKind::ServerScalar,
                Target::ServerObject(_) => NodeKind::ServerObject,
                Target::AsType(t) => NodeKind::AsType(t.clone()),
                Target::ClientPointer(j) => NodeKind::Pointer(match &p.decls[*j].kind {
                    DeclKind::Pointer { target } => Some(target.inner_name().to_string()),
                    _ => None,
                }),
                _ => NodeKind::Other,
            };
            Node { key: s.name_or_alias().to_string(), field: s.name.clone(), kind, children: s.children.as_ref().map(|c| nodes_from_model(p, c)).unwrap_or_default() }
        })
        .collect()
}

fn nodes_from_reader_ast(ast: &[Val]) -> Vec<Node> {
    ast.iter()
        .map(|n| {
            let kind = n.get("kind").and_then(|k| k.as_str()).unwrap_or("?");
            let field = n.get("fieldName").or(n.get("name")).and_then(|f| f.as_str()).unwrap_or("").to_string();
            let alias = n.get("alias").and_then(|a| a.as_str()).map(|s| s.to_string());
            let key = alias.unwrap_or_else(|| field.clone());
            let children = n.get("selections").and_then(|s| s.as_array()).map(nodes_from_reader_ast).unwrap_or_default();
            let kind = match kind {
                "Scalar" => NodeKind::ServerScalar,
                "Linked" => {
                    let is_pointer = !matches!(n.get("refetchQueryIndex"), None | Some(Val::Null));
                    let has_condition = !matches!(n.get("condition"), None | Some(Val::Null));
                    if is_pointer {
                        NodeKind::Pointer(None)
                    } else if has_condition {
                        NodeKind::AsType(field.strip_prefix("as").unwrap_or(&field).to_string())
                    } else {
                        NodeKind::ServerObject
                    }
                }
                _ => NodeKind::Other,
            };
            Node { key, field, kind, children }
        })
        .collect()
}

struct Cx<'a> {
    schema: &'a refgql::Schema,
    what: String,
    fails: Vec<(String, String)>,
    nested_list: bool,
    nullable_in_non_null: bool,
    abstract_position: bool,
}

impl Cx<'_> {
    fn fail(&mut self, sig: &str, path: &str, msg: String) {
        self.fails.push((sig.to_string(), format!("{} at {}: {msg}", self.what, if path.is_empty() { "<data>" } else { path })));
    }
}

/// Walk the TypeScript type along the schema type: nullability at every level, list nesting.
/// Returns the innermost (named-type) TypeScript type.
fn check_wrappers<'t>(cx: &mut Cx, ts: &'t TsTy, gql: &Type, path: &str, depth: usize) -> Option<TsTy> {
    let _ = &ts;
    let (nullable, inner_gql) = match gql {
        Type::NonNull(t) => (false, t.as_ref()),
        t => (true, t),
    };
    let (inner_ts, ts_nullable) = ts.split_nullable();
    if ts_nullable != nullable {
        cx.fail(
            if nullable { "param:nullable-field-without-null" } else { "param:non-null-field-with-null" },
            path,
            format!("schema type {gql} (list level {depth}), TypeScript type {}", ts.to_json()),
        );
    }
    match inner_gql {
        Type::List(elem) => {
            if depth >= 1 {
                cx.nested_list = true;
            }
            if nullable == matches!(elem.as_ref(), Type::NonNull(_)) {
                // [T]! / [T!] : nullability differs between the levels
                cx.nullable_in_non_null = true;
            }
            match &inner_ts {
                TsTy::Array { elem: ts_elem, readonly: true } => check_wrappers(cx, ts_elem, elem, path, depth + 1),
                other => {
                    cx.fail("param:list-field-without-readonly-array", path, format!("schema type {gql}, TypeScript type {}", other.to_json()));
                    None
                }
            }
        }
        _ => {
            if let TsTy::Array { .. } = inner_ts {
                cx.fail("param:array-for-non-list-field", path, format!("schema type {gql}, TypeScript type {}", inner_ts.to_json()));
                return None;
            }
            Some(inner_ts)
        }
    }
}

/// Strip `| null` and arrays (any depth) without asserting them.
fn strip_wrappers(ts: &TsTy) -> TsTy {
    let (inner, _) = ts.split_nullable();
    match inner {
        TsTy::Array { elem, .. } => strip_wrappers(&elem),
        other => other,
    }
}

fn check_object(cx: &mut Cx, ts: &TsTy, nodes: &[Node], parent_type: Option<&str>, path: &str) {
    let TsTy::Object(props) = ts else {
        cx.fail("param:not-an-object-type", path, format!("{}", ts.to_json()));
        return;
    };
    let names: Vec<&str> = props.iter().filter(|p| p.kind != PropKind::Setter).map(|p| p.name.as_str()).collect();
    // exactly one property per selection
    for n in nodes {
        let count = names.iter().filter(|x| **x == n.key).count();
        if count != 1 {
            cx.fail(if count == 0 { "param:selection-without-property" } else { "param:selection-with-several-properties" }, path, format!("selection `{}` has {count} properties; properties: {names:?}", n.key));
        }
    }
    for name in &names {
        if !nodes.iter().any(|n| n.key == *name) {
            cx.fail("param:property-without-selection", path, format!("property `{name}`; selections: {:?}", nodes.iter().map(|n| &n.key).collect::<Vec<_>>()));
        }
    }
    for n in nodes {
        let Some(prop) = ts.prop(&n.key) else { continue };
        let here = format!("{path}/{}", n.key);
        let fdef = parent_type.and_then(|p| cx.schema.field(p, &n.field));
        match &n.kind {
            NodeKind::ServerScalar => {
                if let Some(fd) = fdef {
                    let ty = fd.ty.clone();
                    check_wrappers(cx, &prop.ty, &ty, &here, 0);
                }
            }
            NodeKind::ServerObject => match fdef {
                Some(fd) => {
                    let ty = fd.ty.clone();
                    let target = ty.inner_name().to_string();
                    if matches!(cx.schema.kind_of(&target), Some(TypeKind::Interface | TypeKind::Union)) {
                        cx.abstract_position = true;
                    }
                    if let Some(inner) = check_wrappers(cx, &prop.ty, &ty, &here, 0) {
                        check_object(cx, &inner, &n.children, Some(&target), &here);
                    }
                }
                None => {
                    let inner = strip_wrappers(&prop.ty);
                    check_object(cx, &inner, &n.children, None, &here);
                }
            },
            NodeKind::AsType(t) => {
                cx.abstract_position = true;
                let inner = strip_wrappers(&prop.ty);
                check_object(cx, &inner, &n.children, Some(t), &here);
            }
            NodeKind::Pointer(target) => {
                // `LoadableField<Pointer__param, {…}>`, possibly nullable / in arrays
                match strip_wrappers(&prop.ty) {
                    TsTy::Ref { name, args } if name == "LoadableField" && args.len() == 2 => check_object(cx, &args[1], &n.children, target.as_deref(), &here),
                    other => cx.fail("param:pointer-without-loadable-field-type", &here, format!("{}", other.to_json())),
                }
            }
            NodeKind::Other => {}
        }
    }
}

// ------------------------------------------------------------------------------------------
// raw response type
// ------------------------------------------------------------------------------------------

/// Canonical shape: one variant per type condition; a variant is key -> (list depth, child shape).
#[derive(Clone, Debug, PartialEq, Eq, PartialOrd, Ord)]
struct Shape(Vec<BTreeMap<String, (usize, Option<Shape>)>>);

fn list_depth(t: &Type) -> usize {
    match t {
        Type::NonNull(t) => list_depth(t),
        Type::List(t) => 1 + list_depth(t),
        Type::Named(_) => 0,
    }
}

fn merge_variant(into: &mut BTreeMap<String, (usize, Option<Shape>)>, key: String, v: (usize, Option<Shape>)) {
    match into.get_mut(&key) {
        None => {
            into.insert(key, v);
        }
        Some(existing) => {
            // the same response key twice: sub-selections are merged (single-variant shapes only)
            if let (Some(Shape(a)), Some(Shape(b))) = (&mut existing.1, &v.1) {
                if a.len() == 1 && b.len() == 1 {
                    for (k, x) in b[0].clone() {
                        merge_variant(&mut a[0], k, x);
                    }
                }
            }
        }
    }
}

fn expected_shape(cx: &mut Cx, sel: &SelectionSet, parent: &str) -> Shape {
    let fragments: Vec<&refgql::InlineFragment> = sel
        .items
        .iter()
        .filter_map(|i| match i {
            Selection::InlineFragment(f) => Some(f),
            _ => None,
        })
        .collect();
    let fields: Vec<&refgql::Field> = sel
        .items
        .iter()
        .filter_map(|i| match i {
            Selection::Field(f) => Some(f),
            _ => None,
        })
        .collect();
    let variant_for = |cx: &mut Cx, ty: &str, extra: Option<&SelectionSet>| {
        let mut m = BTreeMap::new();
        let extra_fields: Vec<&refgql::Field> = extra
            .map(|s| {
                s.items
                    .iter()
                    .filter_map(|i| match i {
                        Selection::Field(f) => Some(f),
                        _ => None,
                    })
                    .collect()
            })
            .unwrap_or_default();
        for f in fields.iter().chain(extra_fields.iter()) {
            let fd = cx.schema.field(ty, &f.name).cloned();
            let depth = fd.as_ref().map(|d| list_depth(&d.ty)).unwrap_or(0);
            if depth >= 2 {
                cx.nested_list = true;
            }
            let child = match (&f.selection_set, &fd) {
                (Some(s), Some(d)) => {
                    let t = d.ty.inner_name().to_string();
                    Some(expected_shape(cx, s, &t))
                }
                (Some(s), None) => Some(expected_shape(cx, s, "?")),
                _ => None,
            };
            merge_variant(&mut m, f.response_key().to_string(), (depth, child));
        }
        m
    };
    if fragments.is_empty() {
        return Shape(vec![variant_for(cx, parent, None)]);
    }
    cx.abstract_position = true;
    // one variant per type condition (fragments with the same condition are merged)
    let mut by_type: BTreeMap<String, Vec<&refgql::InlineFragment>> = BTreeMap::new();
    for f in &fragments {
        by_type.entry(f.type_condition.clone().unwrap_or_else(|| parent.to_string())).or_default().push(f);
    }
    let mut variants = vec![];
    for (ty, frs) in by_type {
        let mut m = variant_for(cx, &ty, Some(&frs[0].selection_set));
        for more in &frs[1..] {
            let extra = variant_for(cx, &ty, Some(&more.selection_set));
            for (k, v) in extra {
                merge_variant(&mut m, k, v);
            }
        }
        variants.push(m);
    }
    variants.sort();
    Shape(variants)
}

fn ts_shape(ts: &TsTy, problems: &mut Vec<String>) -> Option<Shape> {
    let object_variant = |props: &Vec<tsread::TsProp>, problems: &mut Vec<String>| {
        let mut m = BTreeMap::new();
        for p in props {
            // list depth through nullability
            let mut depth = 0;
            let mut cur = p.ty.split_nullable().0;
            while let TsTy::Array { elem, .. } = cur {
                depth += 1;
                cur = elem.split_nullable().0;
            }
            let child = match &cur {
                TsTy::Object(_) => ts_shape(&cur, problems),
                TsTy::Union(members) if members.iter().all(|m| matches!(m, TsTy::Object(_))) => ts_shape(&cur, problems),
                _ => None,
            };
            merge_variant(&mut m, p.name.clone(), (depth, child));
        }
        m
    };
    match ts {
        TsTy::Object(props) => Some(Shape(vec![object_variant(props, problems)])),
        TsTy::Union(members) => {
            let mut v = vec![];
            for m in members {
                match m {
                    TsTy::Object(props) => v.push(object_variant(props, problems)),
                    other => problems.push(format!("union member is not an object type: {}", other.to_json())),
                }
            }
            v.sort();
            Some(Shape(v))
        }
        other => {
            problems.push(format!("not an object type: {}", other.to_json()));
            None
        }
    }
}

fn show_shape(s: &Shape) -> String {
    let vs: Vec<String> =
        s.0.iter()
            .map(|m| {
                let fs: Vec<String> = m
                    .iter()
                    .map(|(k, (d, c))| format!("{k}{}{}", "[]".repeat(*d), c.as_ref().map(show_shape).unwrap_or_default()))
                    .collect();
                format!("{{{}}}", fs.join(" "))
            })
            .collect();
    vs.join(" | ")
}

pub fn oracle(c: &Compiled, model: Option<&Project>) -> CaseInfo {
    let mut info = CaseInfo::default();
    let mut nontrivial: Vec<String> = vec![];
    // ---- (a) parameter types
    let mut fields: Vec<(String, String, Vec<Node>)> = vec![]; // (dir, parent type, nodes)
    match model {
        Some(p) => {
            for d in &p.decls {
                fields.push((format!("{}/{}", d.parent, d.name), d.parent.clone(), nodes_from_model(p, &d.selections)));
            }
        }
        None => {
            for path in c.set.paths_named("resolver_reader.ts") {
                let dir = path.rsplit_once('/').map(|x| x.0).unwrap_or("").to_string();
                let parent = dir.split('/').next().unwrap_or("").to_string();
                let Some(v) = c.set.default_of(path) else { continue };
                let art = c.set.deref(v).call0();
                let Some(ast) = art.get("readerAst").map(|a| c.set.deref(a)).and_then(|a| a.as_array()) else {
                    info.label("param:reader-ast-not-readable");
                    continue;
                };
                // the generated `asX` link readers have no user-visible parameter type of interest
                fields.push((dir, parent, nodes_from_reader_ast(ast)));
            }
        }
    }
    let mut n_param = 0u64;
    for (dir, parent, nodes) in &fields {
        let path = format!("{dir}/param_type.ts");
        let Some(m) = c.set.module(&path) else {
            info.label("param:no-artifact-for-declaration");
            continue;
        };
        if !m.parse_errors.is_empty() {
            // C13's business (e.g. a response key that is not an identifier)
            info.label("param:artifact-does-not-parse(C13)");
            continue;
        }
        let Some(alias) = m.exported_type() else {
            info.fail("param:no-exported-type", format!("{path}"));
            continue;
        };
        let Some(data) = alias.ty.prop("data") else {
            info.fail("param:no-data-property", format!("{path}: {}", alias.ty.to_json()));
            continue;
        };
        n_param += 1;
        let mut cx = Cx { schema: &c.schema, what: path.clone(), fails: vec![], nested_list: false, nullable_in_non_null: false, abstract_position: false };
        check_object(&mut cx, &data.ty, nodes, Some(parent), "");
        if cx.nested_list || cx.nullable_in_non_null || cx.abstract_position {
            nontrivial.push(m.source.clone());
        }
        for (sig, msg) in cx.fails {
            info.fail(sig, format!("{msg}\n{}", m.source));
        }
    }
    info.count("param-types-checked", n_param);
    // ---- (b) raw response types
    let mut n_raw = 0u64;
    match ops::entries(c) {
        Err(f) => info.fails.push(f),
        Ok(entries) => {
            let persisted = ops::persisted_documents(c).ok().flatten();
            for e in &entries {
                let path = format!("{}/raw_response_type.ts", e.dir);
                let Some(m) = c.set.module(&path) else {
                    info.fail("raw:no-artifact", path.clone());
                    continue;
                };
                if !m.parse_errors.is_empty() {
                    // C13's business (e.g. a response key that is not an identifier)
                    info.label("raw:artifact-does-not-parse(C13)");
                    continue;
                }
                let Some(alias) = m.exported_type() else {
                    info.fail("raw:no-exported-type", path.clone());
                    continue;
                };
                let Some(text) = ops::effective_text(&e.query, &persisted) else { continue };
                let Ok(doc) = refgql::parse_executable(&text) else {
                    info.label("operation:text-does-not-parse(C09)");
                    continue;
                };
                let Some(op) = doc.definitions.iter().find_map(|d| match d {
                    Definition::Operation(o) => Some(o),
                    _ => None,
                }) else {
                    continue;
                };
                let Some(root) = c.schema.root_type(op.kind).map(|s| s.to_string()) else { continue };
                n_raw += 1;
                let mut cx = Cx { schema: &c.schema, what: path.clone(), fails: vec![], nested_list: false, nullable_in_non_null: false, abstract_position: false };
                let expected = expected_shape(&mut cx, &op.selection_set, &root);
                let mut problems = vec![];
                let actual = ts_shape(&alias.ty, &mut problems);
                for p in problems {
                    info.fail("raw:unexpected-type-form", format!("{path}: {p}\n{}", m.source));
                }
                if let Some(actual) = actual {
                    if actual != expected {
                        info.fail(
                            "raw:key-paths-differ-from-operation",
                            format!("{path}\nfrom the operation: {}\nfrom the type     : {}\noperation: {text}\n{}", show_shape(&expected), show_shape(&actual), m.source),
                        );
                    }
                }
                if cx.nested_list || cx.abstract_position {
                    nontrivial.push(m.source.clone());
                }
            }
        }
    }
    info.count("raw-response-types-checked", n_raw);
    if !nontrivial.is_empty() {
        info.nontrivial = Some(nontrivial.join("\n"));
    }
    info
}

pub fn run(args: &Args) {
    let report = Report::new(
        args,
        "exploration",
        "one case = one accepted program (generated, four tiers, or checked-in): every param_type.ts is compared with the \
         selections of its declaration and the schema, every entrypoint's raw_response_type.ts with its operation; non-trivial = \
         a checked type contains a nested list, a list whose levels differ in nullability, or an abstract position (asX / inline \
         fragments / interface- or union-typed field); distinct by the set of such type artifacts",
    );
    report.assumption("for the checked-in projects the selection tree is read from the reader AST of the same field (no model exists)");
    let ex = driver::negative_int_exclusion();
    driver::run_single(args, &report, 24_000, 240_000, &ex, &oracle);
    report.finish();
}
