//! C11 — normalization ASTs describe exactly the operation they accompany.
//!
//! Domain: as C09 (accepted generated programs of all tiers + the checked-in projects), entrypoint
//! and every refetch artifact.
//! Oracle: tree isomorphism between the refgql AST of the cooked operation text and the evaluated
//! normalization AST that is shipped in the same `networkRequestInfo`: same fields in the same
//! nesting (matched as multisets per selection set, so the order of siblings is not asserted),
//! same arguments by name (Int/Float/Boolean/Null <-> `Literal`, String <-> `String`, enum <->
//! `Enum`, object <-> `Object`, `$v` <-> `Variable`), same inline-fragment types, `Linked` vs
//! `Scalar` consistent with the operation and with the schema, `concreteType` = the field's type
//! name exactly when that type is an object type and `null` when it is an interface or union.
use crate::driver::{self, CaseInfo, Compiled};
use crate::ops;
use gen_project::Project;
use refgql::schema::TypeKind;
use refgql::{Definition, Selection, SelectionSet, Value};
use tsread::Val;
use vcore::{Args, Report};

struct Cx<'a> {
    schema: &'a refgql::Schema,
    op: String,
    fails: Vec<(String, String)>,
    max_depth: usize,
    has_fragment: bool,
    has_args: bool,
}

impl Cx<'_> {
    fn fail(&mut self, sig: &str, path: &str, msg: String) {
        self.fails.push((sig.to_string(), format!("{} at {}: {msg}", self.op, if path.is_empty() { "<root>" } else { path })));
    }
}

/// Canonical text of a GraphQL value, for matching (numbers by numeric value).
pub fn canon_gql(v: &Value) -> String {
    match v {
        Value::Variable(n) => format!("${n}"),
        Value::Int(t) | Value::Float(t) => match t.parse::<f64>() {
            Ok(f) => format!("num:{f}"),
            Err(_) => format!("num?:{t}"),
        },
        Value::String(s) => format!("str:{:?}", s.value),
        Value::Boolean(b) => format!("lit:{b}"),
        Value::Null => "lit:null".into(),
        Value::Enum(e) => format!("enum:{e}"),
        Value::List(l) => format!("[{}]", l.iter().map(canon_gql).collect::<Vec<_>>().join(",")),
        Value::Object(o) => {
            let mut f: Vec<String> = o.iter().map(|(k, v)| format!("{k}={}", canon_gql(v))).collect();
            f.sort();
            format!("{{{}}}", f.join(","))
        }
    }
}

/// Canonical text of a normalization-AST argument value, in the same vocabulary.
fn canon_norm(v: &Val) -> String {
    let kind = v.get("kind").and_then(|k| k.as_str()).unwrap_or("?");
    match kind {
        "Variable" => format!("${}", v.get("name").and_then(|n| n.as_str()).unwrap_or("?")),
        "Literal" => match v.get("value") {
            Some(Val::Num(n)) => format!("num:{n}"),
            Some(Val::Bool(b)) => format!("lit:{b}"),
            Some(Val::Null) => "lit:null".into(),
            other => format!("literal?:{:?}", other.map(|o| o.to_json())),
        },
        "String" => match v.get("value") {
            Some(Val::Str(s)) => format!("str:{s:?}"),
            other => format!("string?:{:?}", other.map(|o| o.to_json())),
        },
        "Enum" => format!("enum:{}", v.get("value").and_then(|n| n.as_str()).unwrap_or("?")),
        "Object" => {
            let mut f: Vec<String> = v
                .get("value")
                .and_then(|a| a.as_array())
                .map(|a| a.iter().map(canon_norm_pair).collect())
                .unwrap_or_else(|| vec!["object?".into()]);
            f.sort();
            format!("{{{}}}", f.join(","))
        }
        other => format!("kind?:{other}:{}", v.to_json()),
    }
}

fn canon_norm_pair(p: &Val) -> String {
    match p.as_array() {
        Some([Val::Str(name), value]) => format!("{name}={}", canon_norm(value)),
        _ => format!("pair?:{}", p.to_json()),
    }
}

pub fn canon_gql_args(args: &[refgql::Argument]) -> String {
    let mut f: Vec<String> = args.iter().map(|a| format!("{}={}", a.name, canon_gql(&a.value))).collect();
    f.sort();
    f.join(",")
}

fn canon_norm_args(args: Option<&Val>) -> String {
    match args {
        None | Some(Val::Null) => String::new(),
        Some(Val::Array(a)) => {
            let mut f: Vec<String> = a.iter().map(canon_norm_pair).collect();
            f.sort();
            f.join(",")
        }
        Some(other) => format!("arguments?:{}", other.to_json()),
    }
}

fn compare(cx: &mut Cx, sel: &SelectionSet, norm: &[Val], parent_type: Option<&str>, path: &str, depth: usize) {
    cx.max_depth = cx.max_depth.max(depth);
    // index the normalization nodes by key
    let mut norm_keys: Vec<(String, &Val, bool)> = norm
        .iter()
        .map(|n| {
            let kind = n.get("kind").and_then(|k| k.as_str()).unwrap_or("?");
            let key = match kind {
                "Scalar" | "Linked" => format!("field {}({})", n.get("fieldName").and_then(|f| f.as_str()).unwrap_or("?"), canon_norm_args(n.get("arguments"))),
                "InlineFragment" => format!("... on {}", n.get("type").and_then(|f| f.as_str()).unwrap_or("?")),
                other => format!("node-kind?:{other}"),
            };
            (key, n, false)
        })
        .collect();
    // work list: the selections of an unmatched inline fragment on an ABSTRACT type are compared
    // at the level of the fragment (one failure with its own root-cause signature instead of one
    // per selection)
    let mut work: Vec<(&Selection, Option<String>)> = sel.items.iter().map(|i| (i, parent_type.map(|s| s.to_string()))).collect();
    work.reverse();
    while let Some((item, type_here)) = work.pop() {
        let parent_type = type_here.as_deref();
        match item {
            Selection::Field(f) => {
                if !f.arguments.is_empty() {
                    cx.has_args = true;
                }
                let key = format!("field {}({})", f.name, canon_gql_args(&f.arguments));
                let here = format!("{path}/{}", f.response_key());
                let Some(slot) = norm_keys.iter_mut().find(|(k, _, used)| !*used && *k == key) else {
                    cx.fail("operation-selection-without-normalization-node", &here, format!("the operation selects `{key}`, the normalization AST has {:?}", norm.iter().map(|n| n.get("fieldName").or(n.get("type")).map(|v| v.to_json())).collect::<Vec<_>>()));
                    continue;
                };
                slot.2 = true;
                let node = slot.1;
                let kind = node.get("kind").and_then(|k| k.as_str()).unwrap_or("?");
                let fdef = parent_type.and_then(|p| cx.schema.field(p, &f.name));
                let ftype = fdef.map(|d| d.ty.inner_name().to_string());
                let composite = ftype.as_deref().map(|t| cx.schema.is_composite(t));
                match (&f.selection_set, kind) {
                    (Some(sub), "Linked") => {
                        if composite == Some(false) {
                            cx.fail("linked-node-for-leaf-field", &here, format!("schema type {ftype:?} is a leaf"));
                        }
                        // concreteType
                        let concrete = node.get("concreteType");
                        match (ftype.as_deref().and_then(|t| cx.schema.kind_of(t)), concrete) {
                            (Some(TypeKind::Object), Some(Val::Str(c))) if Some(c.as_str()) == ftype.as_deref() => {}
                            (Some(TypeKind::Interface | TypeKind::Union), Some(Val::Null)) => {}
                            (Some(TypeKind::Object), other) => cx.fail("concrete-type:object-field-without-its-type", &here, format!("field type {ftype:?} is an object type, concreteType is {:?}", other.map(|o| o.to_json()))),
                            (Some(TypeKind::Interface | TypeKind::Union), other) => cx.fail("concrete-type:abstract-field-with-concrete-type", &here, format!("field type {ftype:?} is abstract, concreteType is {:?}", other.map(|o| o.to_json()))),
                            (k, other) => cx.fail("concrete-type:unknown-field-type", &here, format!("field type {ftype:?} kind {k:?}, concreteType {:?}", other.map(|o| o.to_json()))),
                        }
                        let sub_norm = node.get("selections").and_then(|s| s.as_array()).unwrap_or(&[]);
                        compare(cx, sub, sub_norm, ftype.as_deref(), &here, depth + 1);
                    }
                    (None, "Scalar") => {
                        if composite == Some(true) {
                            cx.fail("scalar-node-for-composite-field", &here, format!("schema type {ftype:?} is composite"));
                        }
                    }
                    (Some(_), other) => cx.fail("kind:operation-has-selection-set", &here, format!("normalization node kind {other}")),
                    (None, other) => cx.fail("kind:operation-field-is-leaf", &here, format!("normalization node kind {other}")),
                }
            }
            Selection::InlineFragment(frag) => {
                cx.has_fragment = true;
                let ty = frag.type_condition.clone().unwrap_or_default();
                let key = format!("... on {ty}");
                let here = format!("{path}/...{ty}");
                let Some(slot) = norm_keys.iter_mut().find(|(k, _, used)| !*used && *k == key) else {
                    if matches!(cx.schema.kind_of(&ty), Some(TypeKind::Interface | TypeKind::Union)) {
                        cx.fail("abstract-type-condition-only-in-operation", &here, format!("the operation has `{key}` ({ty} is abstract), the normalization AST has no such node"));
                        for i in frag.selection_set.items.iter().rev() {
                            work.push((i, Some(ty.clone())));
                        }
                    } else {
                        cx.fail("operation-fragment-without-normalization-node", &here, format!("the operation has `{key}`"));
                    }
                    continue;
                };
                slot.2 = true;
                let sub_norm = slot.1.get("selections").and_then(|s| s.as_array()).unwrap_or(&[]);
                compare(cx, &frag.selection_set, sub_norm, Some(&ty), &here, depth + 1);
            }
            Selection::FragmentSpread(s) => cx.fail("operation-has-fragment-spread", path, s.name.clone()),
        }
    }
    for (key, _, used) in &norm_keys {
        if !used {
            cx.fail("normalization-node-without-operation-selection", path, format!("the normalization AST has `{key}`, the operation does not select it"));
        }
    }
}

pub fn oracle(c: &Compiled, _model: Option<&Project>) -> CaseInfo {
    let mut info = CaseInfo::default();
    let entries = match ops::entries(c) {
        Ok(e) => e,
        Err(f) => {
            info.fails.push(f);
            return info;
        }
    };
    let persisted = ops::persisted_documents(c).ok().flatten();
    let mut nontrivial: Vec<String> = vec![];
    let mut n = 0u64;
    for e in &entries {
        for op in std::iter::once(&e.query).chain(e.refetch.iter()) {
            let Some(text) = ops::effective_text(op, &persisted) else {
                info.label("operation:persisted-id-without-document");
                continue;
            };
            let Ok(doc) = refgql::parse_executable(&text) else {
                // C09's business
                info.label("operation:text-does-not-parse(C09)");
                continue;
            };
            let operations: Vec<_> = doc
                .definitions
                .iter()
                .filter_map(|d| match d {
                    Definition::Operation(o) => Some(o),
                    _ => None,
                })
                .collect();
            if operations.len() != 1 {
                info.label("operation:not-exactly-one(C09)");
                continue;
            }
            n += 1;
            let o = operations[0];
            let root = c.schema.root_type(o.kind).map(|s| s.to_string());
            if let (Some(ct), Some(root)) = (&op.concrete_type, &root) {
                if ct != root {
                    // not part of the property's statement: recorded, not judged
                    info.label("artifact-concreteType-differs-from-operation-root-type");
                }
            }
            let mut cx = Cx { schema: &c.schema, op: op.name(), fails: vec![], max_depth: 0, has_fragment: false, has_args: false };
            compare(&mut cx, &o.selection_set, &op.norm, root.as_deref(), "", 1);
            if cx.max_depth >= 3 || cx.has_fragment || cx.has_args {
                nontrivial.push(text.clone());
            }
            for (sig, msg) in cx.fails {
                let sig = if op.index.is_some() { format!("refetch:{sig}") } else { sig };
                info.fail(sig, format!("{msg}\noperation: {text}\nnormalization AST: {}", Val::Array(op.norm.clone()).to_json()));
            }
        }
    }
    info.count("operations-compared", n);
    if !nontrivial.is_empty() {
        info.count("operations:nontrivial", nontrivial.len() as u64);
        info.nontrivial = Some(nontrivial.join("\n"));
    }
    info
}

pub fn run(args: &Args) {
    let report = Report::new(
        args,
        "exploration",
        "one case = one accepted program (generated, four tiers, or checked-in); every (operation text, normalization AST) pair of \
         its entrypoints and refetch artifacts is compared; non-trivial = a compared operation has depth >= 3, an inline fragment \
         or arguments; distinct by the set of such operation texts",
    );
    report.assumption("operations whose text does not parse are C09's business and are skipped here (counted)");
    let ex = driver::negative_int_exclusion();
    driver::run_single(args, &report, 24_000, 240_000, &ex, &oracle);
    report.finish();
}
