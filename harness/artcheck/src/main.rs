//! Artifact-level checks over accepted programs: C09 (valid GraphQL), C11 (normalization AST =
//! operation), C15 (independence of arrangement), C25 (refetch references), C26 (persisted
//! documents), C27 (TypeScript types).
mod c09;
mod c11;
mod c15;
mod c25;
mod c26;
mod c27;
mod driver;
mod ops;

fn main() {
    let args = vcore::parse_args();
    match args.property.as_str() {
        "C09" => c09::run(&args),
        "C11" => c11::run(&args),
        "C15" => c15::run(&args),
        "C25" => c25::run(&args),
        "C26" => c26::run(&args),
        "C27" => c27::run(&args),
        other => vcore::inconclusive(&format!("artcheck: {other} not built yet")),
    }
}
