fn main() {
    vcore::inconclusive("artcheck: not built yet");
}
