//! C04 — distinct memoized functions never share cached results.
//!
//! Part 1 (generated programs): `generated.rs` (written by `memo_gen` from the seed before the
//! build, see `check`) holds programs of 30-60 modules x 2-4 `#[memo]` functions whose signatures
//! textually recur in different modules. Every body returns a constant unique to (module,
//! function) combined with its arguments and a source read. Generated call sequences (calls of
//! colliding and non-colliding functions with equal and different arguments, interleaved with
//! source writes) run on a fresh database each; oracle: every call returns its own function's
//! value, computed by the harness from the generator's table without any memoization.
//!
//! Part 2 (this repository): every `.rs` file under /repo/crates is parsed with `syn`; for every
//! function carrying `#[memo]` the macro's key input (`sig.to_token_stream().to_string()`) is
//! recomputed, and functions of one crate's `src/` that share a key are reported. That is an
//! enumeration, not a sample.
use std::collections::BTreeMap;
use std::path::{Path, PathBuf};

use pico::Database;
use proptest::prelude::*;
use quote::ToTokens;
use serde_json::{Value, json};
use vcore::{Args, Fail, Report};

mod generated;
use generated::{Base, Db, ENTRIES, Entry, Slot};

const M1: i64 = 1_000_003;
const M2: i64 = 7919;

#[derive(Clone, Debug)]
enum Step {
    /// (entry index within ENTRIES, a, b)
    Call(usize, u8, u8),
    SetBase(i64),
    SetSlot(u8, i64),
    /// slot k moves by one and the base by 31 the other way: every function that reads both
    /// (`slots[k] * 31 + base`) is re-executed on its next call and yields the value it had
    /// (the memoization crate then keeps the old node: "backdating")
    Shift(u8),
    /// `run_garbage_collection`
    Gc,
}

fn expected(e: &Entry, a: u8, b: u8, base: i64, slots: &[i64; 3]) -> i64 {
    let (a, b) = (a as i64, b as i64);
    e.konst
        + match e.shape {
            0 => base,
            1 | 2 | 4 | 5 => a * M1 + base,
            3 => a * M1 + b * M2 + base,
            _ => slots[a as usize] * 31 + base,
        }
}

/// The collision class of an entry: functions with the same name and shape have textually
/// identical signatures (cross-checked against syn's rendering in `self_check`).
fn class_of(e: &Entry) -> (u32, &'static str, u8) {
    (e.prog, e.name, e.shape)
}

fn run_steps(steps: &[Step]) -> Result<(), Fail> {
    let mut db = Db::default();
    let mut base = 0i64;
    let mut slots = [0i64; 3];
    for k in 0..3u8 {
        db.set(Slot { key: k, v: 0 });
    }
    // which function last ran for a (class, args): tells what a wrong value came from
    for (i, s) in steps.iter().enumerate() {
        match *s {
            Step::SetBase(v) => {
                base = v;
                db.set(Base { v });
            }
            Step::SetSlot(k, v) => {
                slots[k as usize] = v;
                db.set(Slot { key: k, v });
            }
            Step::Shift(k) => {
                let d = if slots[k as usize] > 0 { -1 } else { 1 };
                slots[k as usize] += d;
                base -= 31 * d;
                db.set(Slot { key: k, v: slots[k as usize] });
                db.set(Base { v: base });
            }
            Step::Gc => {
                if let Err(p) = vcore::catch_panic(std::panic::AssertUnwindSafe(|| db.run_garbage_collection())) {
                    return Err(Fail::new("panic-in-garbage-collection", format!("step {i}: run_garbage_collection panicked: {p}")));
                }
            }
            Step::Call(idx, a, b) => {
                let e = &ENTRIES[idx];
                let want = expected(e, a, b, base, &slots);
                let got = match vcore::catch_panic(|| (e.call)(&db, a, b)) {
                    Ok(v) => v,
                    Err(p) => {
                        return Err(Fail::new(
                            "panic-in-memoized-call",
                            format!("step {i}: {}::{} (shape {}) panicked: {p}", e.module, e.name, e.shape),
                        ));
                    }
                };
                if got != want {
                    // whose value is it?
                    let owner = ENTRIES.iter().find(|o| o.prog == e.prog && expected(o, a, b, base, &slots) == got);
                    let stale_owner = ENTRIES.iter().find(|o| o.prog == e.prog && (got - o.konst).abs() < 500_000_000);
                    let (sig, who) = match (owner, stale_owner) {
                        (Some(o), _) if class_of(o) == class_of(e) => {
                            ("shared-cache:identical-signature-in-another-module", format!("the value of {}::{}", o.module, o.name))
                        }
                        (Some(o), _) => ("shared-cache:different-signature", format!("the value of {}::{}", o.module, o.name)),
                        (None, Some(o)) if std::ptr::eq(o, e) => ("stale-own-value", "an outdated value of the same function".to_string()),
                        (None, Some(o)) => ("shared-cache:stale-other", format!("an outdated value of {}::{}", o.module, o.name)),
                        _ => ("wrong-value", "no function's value".to_string()),
                    };
                    return Err(Fail::new(
                        sig,
                        format!(
                            "step {i}: {}::{}(a={a}, b={b}) [shape {}] returned {got}, its own value is {want}; that is {who}",
                            e.module, e.name, e.shape
                        ),
                    ));
                }
            }
        }
    }
    Ok(())
}

fn steps_json(steps: &[Step]) -> Value {
    let v: Vec<Value> = steps
        .iter()
        .map(|s| match *s {
            Step::Call(i, a, b) => json!(["call", ENTRIES[i].module, ENTRIES[i].name, a, b]),
            Step::SetBase(v) => json!(["base", v]),
            Step::SetSlot(k, v) => json!(["slot", k, v]),
            Step::Shift(k) => json!(["shift", k]),
            Step::Gc => json!(["gc"]),
        })
        .collect();
    json!({"generated_seed": generated::SEED, "steps": v})
}

fn steps_from_json(v: &Value) -> Option<Vec<Step>> {
    if v["generated_seed"].as_u64() != Some(generated::SEED) {
        // the program is a function of the seed: the dispatcher regenerates it from --seed
        println!("NOTE: replay was recorded for generated seed {}, the built program has seed {}; functions are matched by module and name", v["generated_seed"], generated::SEED);
    }
    let mut out = vec![];
    for s in v["steps"].as_array()? {
        let a = s.as_array()?;
        match a.first()?.as_str()? {
            "call" => {
                let (m, n) = (a.get(1)?.as_str()?, a.get(2)?.as_str()?);
                let idx = ENTRIES.iter().position(|e| e.module == m && e.name == n)?;
                out.push(Step::Call(idx, a.get(3)?.as_u64()? as u8, a.get(4)?.as_u64()? as u8));
            }
            "base" => out.push(Step::SetBase(a.get(1)?.as_i64()?)),
            "slot" => out.push(Step::SetSlot(a.get(1)?.as_u64()? as u8, a.get(2)?.as_i64()?)),
            "shift" => out.push(Step::Shift(a.get(1)?.as_u64()? as u8)),
            "gc" => out.push(Step::Gc),
            _ => return None,
        }
    }
    Some(out)
}

// ------------------------------------------------------------------------------------------------
// static scan with syn
// ------------------------------------------------------------------------------------------------

#[derive(Debug, Clone)]
struct MemoFn {
    file: String,
    module: String,
    name: String,
    key: String,
}

struct Scan<'a> {
    file: &'a str,
    modules: Vec<String>,
    out: &'a mut Vec<MemoFn>,
}

fn is_memo_attr(a: &syn::Attribute) -> bool {
    a.path().segments.last().map(|s| s.ident == "memo").unwrap_or(false)
}

impl<'ast, 'a> syn::visit::Visit<'ast> for Scan<'a> {
    fn visit_item_mod(&mut self, m: &'ast syn::ItemMod) {
        self.modules.push(m.ident.to_string());
        syn::visit::visit_item_mod(self, m);
        self.modules.pop();
    }
    fn visit_item_fn(&mut self, f: &'ast syn::ItemFn) {
        if f.attrs.iter().any(is_memo_attr) {
            self.out.push(MemoFn {
                file: self.file.to_string(),
                module: self.modules.join("::"),
                name: f.sig.ident.to_string(),
                // exactly what pico_macros::memo_macro::hash feeds into the hasher
                key: f.sig.to_token_stream().to_string(),
            });
        }
        syn::visit::visit_item_fn(self, f);
    }
}

fn rs_files(dir: &Path, out: &mut Vec<PathBuf>) {
    let Ok(rd) = std::fs::read_dir(dir) else { return };
    let mut entries: Vec<_> = rd.flatten().map(|e| e.path()).collect();
    entries.sort();
    for p in entries {
        if p.is_dir() {
            if p.file_name().map(|n| n == "target" || n == "node_modules").unwrap_or(false) {
                continue;
            }
            rs_files(&p, out);
        } else if p.extension().map(|e| e == "rs").unwrap_or(false) {
            out.push(p);
        }
    }
}

fn scan_file(path: &Path, label: &str, out: &mut Vec<MemoFn>) -> Result<(), String> {
    let text = std::fs::read_to_string(path).map_err(|e| e.to_string())?;
    let file = syn::parse_file(&text).map_err(|e| format!("{}: {e}", path.display()))?;
    let mut scan = Scan { file: label, modules: vec![], out };
    syn::visit::Visit::visit_file(&mut scan, &file);
    Ok(())
}

/// Scan /repo/crates. Returns (all memo fns, duplicate groups inside one crate's src/).
fn scan_repo(report: &Report) -> Vec<(String, Vec<MemoFn>)> {
    let root = vcore::repo_root().join("crates");
    let mut files = vec![];
    rs_files(&root, &mut files);
    let mut fns = vec![];
    let mut unparsed = 0u64;
    for f in &files {
        let label = f.strip_prefix(vcore::repo_root()).unwrap_or(f).display().to_string();
        if scan_file(f, &label, &mut fns).is_err() {
            unparsed += 1;
        }
    }
    report.label_n("scan:rs-files", files.len() as u64);
    report.label_n("scan:rs-files-not-parsed-by-syn", unparsed);
    report.label_n("scan:memo-functions", fns.len() as u64);
    // group by (crate, key) for library code: one crate's functions can meet in one database.
    // Functions under tests/ live in separate test programs with their own databases; duplicates
    // there are counted as a label only.
    let mut groups: BTreeMap<(String, bool, String), Vec<MemoFn>> = BTreeMap::new();
    for f in &fns {
        let parts: Vec<&str> = f.file.split('/').collect();
        let krate = parts.get(1).copied().unwrap_or("").to_string();
        let is_src = parts.get(2).copied() == Some("src");
        groups.entry((krate, is_src, f.key.clone())).or_default().push(f.clone());
    }
    // the same key in different crates can also meet in one database (the compiler's crates
    // share IsographDatabase): group library code across crates too
    let mut cross: BTreeMap<String, Vec<MemoFn>> = BTreeMap::new();
    for f in &fns {
        let parts: Vec<&str> = f.file.split('/').collect();
        if parts.get(2).copied() == Some("src") && parts.get(1).copied() != Some("pico") {
            cross.entry(f.key.clone()).or_default().push(f.clone());
        }
    }
    let mut dups = vec![];
    for (key, v) in cross {
        if v.len() > 1 {
            dups.push((key, v));
        }
    }
    let test_dups = groups.iter().filter(|((_, is_src, _), v)| !*is_src && v.len() > 1).count();
    report.label_n("scan:duplicate-keys-in-test-programs(separate databases)", test_dups as u64);
    report.extra(
        "repo_scan",
        json!({"rs_files": files.len(), "memo_functions": fns.len(), "duplicate_keys_in_library_code": dups.len(), "not_parsed": unparsed}),
    );
    dups
}

/// The generator's collision classes must be exactly syn's: same (name, shape) <=> same key.
fn self_check(report: &Report) -> BTreeMap<usize, usize> {
    let path = vcore::verif_root().join("harness/memo_programs/src/generated.rs");
    let mut fns = vec![];
    if let Err(e) = scan_file(&path, "generated.rs", &mut fns) {
        vcore::inconclusive(&format!("generated.rs does not parse: {e}"));
    }
    // the file-module program (functions live in gen_mods/fNN/mod.rs, not in generated.rs) is
    // classed by the generator table alone
    let inline: Vec<&Entry> = ENTRIES.iter().filter(|e| e.prog != generated::FILE_MODULE_PROGRAM).collect();
    if fns.len() != inline.len() {
        vcore::inconclusive(&format!("generated.rs on disk has {} memo functions, the built program {}", fns.len(), inline.len()));
    }
    let mut by_key: BTreeMap<(String, String), Vec<usize>> = BTreeMap::new();
    let mut by_class: BTreeMap<(u32, &str, u8), Vec<usize>> = BTreeMap::new();
    let mut file_classes: BTreeMap<(u32, &str, u8), Vec<usize>> = BTreeMap::new();
    let mut fi = 0;
    for (i, e) in ENTRIES.iter().enumerate() {
        if e.prog == generated::FILE_MODULE_PROGRAM {
            file_classes.entry(class_of(e)).or_default().push(i);
            continue;
        }
        let f = &fns[fi];
        fi += 1;
        if f.module != e.module || f.name != e.name {
            vcore::inconclusive("generated.rs on disk is not the program that was built");
        }
        let prog = e.module.split("::").next().unwrap_or("").to_string();
        by_key.entry((prog, f.key.clone())).or_default().push(i);
        by_class.entry(class_of(e)).or_default().push(i);
    }
    let a: Vec<&Vec<usize>> = by_key.values().collect();
    let mut b: Vec<&Vec<usize>> = by_class.values().collect();
    let mut a2 = a.clone();
    a2.sort();
    b.sort();
    if a2 != b {
        vcore::inconclusive("the generator's collision classes differ from the signature token streams syn sees");
    }
    let mut class_size = BTreeMap::new();
    for v in by_class.values().chain(file_classes.values()) {
        for i in v {
            class_size.insert(*i, v.len());
        }
    }
    report.label_n("generated:same-signature-functions-in-same-named-files", file_classes.values().filter(|v| v.len() > 1).map(|v| v.len() as u64).sum());
    report.label_n("generated:memo-functions", ENTRIES.len() as u64);
    report.label_n("generated:signature-classes-with->=2-functions", by_class.values().filter(|v| v.len() > 1).count() as u64);
    class_size
}

// ------------------------------------------------------------------------------------------------

fn steps_strategy(colliding: Vec<Vec<usize>>, idx: Vec<usize>) -> impl Strategy<Value = Vec<Step>> {
    let n = idx.len();
    let idx2 = idx.clone();
    // a call step either picks any function, or two functions of one collision class called with
    // the same arguments back to back (the collision case), or the same function twice
    let any_call = (0..n, 0..3u8, 0..3u8).prop_map(move |(i, a, b)| vec![Step::Call(idx[i], a, b)]);
    let classes = colliding.clone();
    let pair = (0..colliding.len().max(1), any::<u16>(), any::<u16>(), 0..3u8, 0..3u8).prop_map(move |(c, x, y, a, b)| {
        if classes.is_empty() {
            return vec![];
        }
        let cl = &classes[c % classes.len()];
        let i = cl[vcore::pick_index(x, cl.len())];
        let j = cl[vcore::pick_index(y, cl.len())];
        vec![Step::Call(i, a, b), Step::Call(j, a, b)]
    });
    let write = prop_oneof![
        3 => (0..4i64).prop_map(Step::SetBase),
        3 => (0..3u8, 0..4i64).prop_map(|(k, v)| Step::SetSlot(k, v)),
        1 => (0..3u8).prop_map(Step::Shift),
        1 => Just(Step::Gc)
    ]
    .prop_map(|s| vec![s]);
    // a function is re-executed with an unchanged result (backdated), another function runs, the
    // cache is garbage collected, and both are asked again
    let backdate_gc = (any::<u16>(), any::<u16>(), 0..3u8, 0..3u8, 0..3u8, any::<bool>()).prop_map(move |(x, y, k, a, b, gc_first)| {
        let readers: Vec<usize> = idx2.iter().copied().filter(|i| ENTRIES[*i].shape >= 6).collect();
        if readers.is_empty() {
            return vec![];
        }
        let f = readers[vcore::pick_index(x, readers.len())];
        let g = idx2[vcore::pick_index(y, idx2.len())];
        let mut v = vec![Step::Call(f, k, 0)];
        if gc_first {
            v.push(Step::Gc);
        }
        v.extend([Step::Shift(k), Step::Call(f, k, 0), Step::Call(g, a, b), Step::Gc, Step::Call(f, k, 0), Step::Call(g, a, b)]);
        v
    });
    prop::collection::vec(prop_oneof![3 => any_call, 4 => pair, 2 => write, 1 => backdate_gc], 1..=16).prop_map(|v| v.into_iter().flatten().collect())
}

fn main() {
    let args = vcore::parse_args();
    if args.property != "C04" {
        vcore::inconclusive(&format!("memo_programs: unknown property {}", args.property));
    }
    run(&args);
}

fn run(args: &Args) {
    let report = Report::new(
        args,
        "exploration",
        "call sequences over generated programs (30-60 modules x 2-4 #[memo] functions, signatures from a grammar of 5 names x 7 \
         parameter/return shapes) on a fresh database each; non-trivial = the sequence calls two DIFFERENT functions with textually \
         identical signatures (different modules) with the same arguments; distinct by sequence. Plus an exhaustive syn scan of \
         every #[memo] signature under /repo/crates for duplicate macro keys",
    );
    report.engine("pbt");
    report.engine("static-scan(syn)");
    report.assumption("syn's rendering of a signature differs from rustc's proc_macro rendering at most in spacing, identically for all functions, so equal keys are equal in both");
    if generated::SEED != args.seed && args.replay.is_none() {
        vcore::inconclusive(&format!(
            "generated.rs was produced for seed {} but the check runs with seed {} (run through ./check, which regenerates it)",
            generated::SEED,
            args.seed
        ));
    }

    let want_programs = args.tier.pick(1u32, 8u32) + 1; // + the file-module program
    if generated::PROGRAMS != want_programs && args.replay.is_none() {
        vcore::inconclusive(&format!("generated.rs holds {} programs, tier {} wants {want_programs} (run through ./check)", generated::PROGRAMS, args.tier.as_str()));
    }

    if let Some(path) = &args.replay {
        let doc = vcore::read_replay(path);
        if doc["input"]["repo_scan"].is_object() {
            // a static-scan finding: re-scan
            let dups = scan_repo(&report);
            report.case(Some("replay-marker-1"), &[]);
            report.case(Some("replay-marker-2"), &[]);
            if let Some((key, v)) = dups.first().filter(|_| identical_signatures_collide()) {
                let f = scan_fail(key, v);
                report.violation("replay", &f, doc["input"].clone());
            }
            report.finish();
        }
        let Some(steps) = steps_from_json(&doc["input"]) else { vcore::inconclusive("replay input does not match the built program (pass the --seed it was recorded with)") };
        report.case(Some("replay-marker-1"), &[]);
        report.case(Some("replay-marker-2"), &[]);
        if let Err(f) = run_steps(&steps) {
            report.violation("replay", &f, doc["input"].clone());
        }
        report.finish();
    }

    let class_size = self_check(&report);

    // Part 2 first (cheap, exhaustive). Identical signature token streams in library code are a
    // collision exactly when this tree's macro keys functions by their signature alone, which is
    // decided by a probe on the generated program (no assumption on how the macro builds its key).
    let dups = scan_repo(&report);
    let collide = identical_signatures_collide();
    report.extra("identical_signatures_share_a_key_in_this_tree", json!(collide));
    if !collide {
        report.label_n("scan:identical-signatures-in-library-code(distinct keys in this tree)", dups.len() as u64);
    }
    for (key, v) in dups.iter().filter(|_| collide) {
        let fail = scan_fail(key, v);
        match report.tolerate(Err(fail)) {
            Ok(()) => {}
            Err(fail) => {
                report.violation("repo-scan", &fail, json!({"repo_scan": {"key": key, "functions": v.iter().map(|f| format!("{}::{}::{}", f.file, f.module, f.name)).collect::<Vec<_>>()}}));
            }
        }
    }

    report.run_regressions(|input| match steps_from_json(input) {
        Some(steps) => run_steps(&steps),
        None => Ok(()), // recorded for another generated program
    });

    // Part 1
    let cases = args.tier.pick(40_000u32, 1_000_000u32);
    for prog in 0..generated::PROGRAMS {
        let idx: Vec<usize> = (0..ENTRIES.len()).filter(|i| ENTRIES[*i].prog == prog).collect();
        let mut classes: BTreeMap<(u32, &str, u8), Vec<usize>> = BTreeMap::new();
        for &i in &idx {
            classes.entry(class_of(&ENTRIES[i])).or_default().push(i);
        }
        let colliding: Vec<Vec<usize>> = classes.values().filter(|v| v.len() > 1).cloned().collect();
        let strat = steps_strategy(colliding, idx);
        let found = vcore::run_prop(&report, &format!("program-{prog}"), cases / generated::PROGRAMS.max(1), strat, |steps: &Vec<Step>| {
            // non-trivial: two different functions of one class with the same arguments
            let mut seen: BTreeMap<((u32, &str, u8), u8, u8), usize> = BTreeMap::new();
            let mut nontrivial = false;
            for s in steps {
                if let Step::Call(i, a, b) = *s {
                    let e = &ENTRIES[i];
                    let (a2, b2) = match e.shape {
                        0 => (0, 0),
                        3 => (a, b),
                        _ => (a, 0),
                    };
                    if let Some(j) = seen.insert((class_of(e), a2, b2), i) {
                        if j != i {
                            nontrivial = true;
                        }
                    }
                }
            }
            let has_write = steps.iter().any(|s| !matches!(s, Step::Call(..)));
            let big = steps.iter().any(|s| matches!(s, Step::Call(i, ..) if class_size.get(i).copied().unwrap_or(1) >= 3));
            let mut labels = vec![];
            if nontrivial {
                labels.push("same-signature-pair-same-args");
            }
            if has_write {
                labels.push("with-source-writes");
            }
            if big {
                labels.push("class-of->=3-functions");
            }
            let text = format!("{steps:?}");
            report.case(if nontrivial { Some(text.as_str()) } else { None }, &labels);
            report.sample(if nontrivial { "non-trivial" } else { "trivial" }, 2, || steps_json(steps));
            run_steps(steps)
        });
        if let Some((steps, fail)) = found {
            report.violation(&format!("program-{prog}"), &fail, steps_json(&steps));
            break;
        }
        report.unfreeze();
    }
    report.finish();
}

/// Probe: do two functions with textually identical signatures (different modules) share a
/// cache entry in this tree? Calls every pair of one collision class with equal arguments.
fn identical_signatures_collide() -> bool {
    let mut classes: BTreeMap<(u32, &str, u8), Vec<usize>> = BTreeMap::new();
    for (i, e) in ENTRIES.iter().enumerate() {
        classes.entry(class_of(e)).or_default().push(i);
    }
    for v in classes.values().filter(|v| v.len() > 1) {
        let steps = vec![Step::Call(v[0], 1, 1), Step::Call(v[1], 1, 1)];
        if let Err(f) = run_steps(&steps) {
            if f.signature.starts_with("shared-cache:identical-signature") {
                return true;
            }
        }
    }
    false
}

fn scan_fail(key: &str, v: &[MemoFn]) -> Fail {
    Fail::new(
        "repo:duplicate-memo-key",
        format!(
            "{} #[memo] functions of the repository's library code have the identical signature token stream `{key}` and therefore the same derived-node key: {}",
            v.len(),
            v.iter().map(|f| format!("{} ({}::{})", f.file, f.module, f.name)).collect::<Vec<_>>().join(", ")
        ),
    )
}

#[allow(dead_code)]
fn unused(_: Base) {}
