fn main() {
    vcore::inconclusive("memo_programs: not built yet");
}
