//! C17 — a compile that reports error diagnostics leaves the artifact directory untouched.
//!
//! Domain: history = successful compile of a generated project P0, then k >= 1 compiles of invalid
//! programs (undefined field / type / entrypoint, parse errors, duplicate definition, scalar with
//! sub-selection, object without selection, dangling reference, missing or unparsable schema file),
//! each as a batch compile (fresh CLI process / fresh `CompilerState`) or as a watch recompile
//! (`update_sources` + `compile` on the live state), optionally followed by a repair.
//! Oracle: the snapshot (relative path -> bytes) of the artifact directory before and after every
//! compile that reported diagnostics is identical. Whether a compile failed is what the compiler
//! says, never the model.
use crate::hgen::{build_history, c17_hist_seed};
use crate::history::{run_history, History, Prop};
use crate::Samples;
use vcore::{Args, Fail, Report};

fn replay_input(v: &serde_json::Value, base: &std::path::Path) -> Result<(), Fail> {
    let Some(h) = History::from_json(v) else {
        return Err(Fail::new("bad-replay", "replay input is not a history"));
    };
    run_history(base, &h, Prop::C17).map(|_| ())
}

pub fn run(args: &Args) {
    let report = Report::new(
        args,
        "exploration",
        "histories: successful compile of P0, then 1-5 further compiles, at least one of an invalid program \
         (10 error kinds), batch (fresh CLI process / fresh CompilerState) or watch-style (update_sources + \
         compile on the live state); non-trivial = the history contains a failing compile that ran against a \
         directory holding the artifacts of an earlier successful compile while the sources differ from the \
         ones compiled successfully; distinct by the whole history (sources of every step, modes)",
    );
    report.engine("stateful (inproc + subproc)");
    report.assumption("whether a compile failed is taken from the compiler (Err / exit code 1); compiler panics are C08's subject and are only labelled");
    report.assumption("write-phase I/O diagnostics are outside C17's domain (invalid programs); C18/C19 judge them");
    let base = vcore::scratch_base();

    if let Some(path) = &args.replay {
        let v = vcore::read_replay(path);
        report.case(Some(&v["input"].to_string()), &["replay"]);
        report.case(Some("replay-marker"), &[]);
        if let Err(f) = replay_input(&v["input"], &base) {
            report.violation("replay", &f, v["input"].clone());
        }
        report.finish();
    }
    report.run_regressions(|v| replay_input(v, &base));

    let cases = args.tier.pick(480, 16000);
    let samples = Samples::new(2);
    let result = crate::run_prop_parallel_budget(
        &report,
        "c17-histories",
        cases,
        100,
        c17_hist_seed,
        |seed| {
            let built = build_history(seed);
            let r = run_history(&base, &built.history, Prop::C17);
            let key = vcore::hash_of(&built.history);
            match &r {
                Ok(st) => {
                    let mut labels: Vec<String> = built.labels.iter().map(|s| s.to_string()).collect();
                    labels.extend(st.labels.iter().cloned());
                    for (s, o) in built.history.steps.iter().zip(st.outcomes.iter()) {
                        labels.push(format!("compile:{}:{o}", crate::history::mode_name(s.mode)));
                    }
                    labels.extend(built.agreement_labels(&st.outcomes));
                    if st.diagnostics == 0 {
                        labels.push("history-without-failing-compile".into());
                    }
                    let l: Vec<&str> = labels.iter().map(|s| s.as_str()).collect();
                    report.case(if st.c17_nontrivial > 0 { Some(&key) } else { None }, &l);
                    report.label_n("failing-compiles-checked", st.diagnostics as u64);
                    report.label_n("failing-compiles-checked-nontrivial", st.c17_nontrivial as u64);
                    let kind = if st.c17_nontrivial > 0 { "nontrivial-history" } else { "other-history" };
                    samples.offer(kind, key, || crate::history_sample(&built.history));
                }
                Err(_) => report.case(Some(&key), &["failing-case"]),
            }
            r.map(|_| ())
        },
    );
    if let Some((seed, fail)) = result {
        let built = build_history(&seed);
        report.violation("c17-histories", &fail, built.history.to_json("C17"));
    }
    report.unfreeze();
    samples.emit(&report);
    report.finish();
}
