//! Compact local project generator for C17-C19 (a richer shared `gen_project` may replace it).
//!
//! Model first: a `Project` (schema choice, config choice, source files holding iso declarations)
//! is generated, edited by `EditOp`s and printed to files. The model is what the harness consults
//! for labels; whether a compile *fails* is always taken from the compiler itself.
//!
//! The iso subset printed here is what the docs and the demo projects show the compiler accepts:
//! `field T.Name [@component] { selections }` with one selection per line, object selections with
//! sub-selections, selections of other client fields (optionally `@loadable` on types with an id),
//! `__refetch` on types with an id, and `entrypoint Query.Name`.
use proptest::prelude::*;
use serde_json::{json, Value};
use std::collections::{BTreeMap, BTreeSet};

// ---------------------------------------------------------------------------------------------
// schema family
// ---------------------------------------------------------------------------------------------

pub struct ObjField {
    pub name: &'static str,
    /// printed after the name, e.g. `(id: "i1")`
    pub args: &'static str,
    pub target: &'static str,
}

pub struct TypeDef {
    pub name: &'static str,
    pub has_id: bool,
    pub scalars: &'static [&'static str],
    pub objects: &'static [ObjField],
}

pub struct SchemaDef {
    pub sdl: &'static str,
    /// types[0] is Query
    pub types: &'static [TypeDef],
}

const fn of(name: &'static str, args: &'static str, target: &'static str) -> ObjField {
    ObjField { name, args, target }
}

pub const SCHEMAS: &[SchemaDef] = &[
    // 0: Query + User (id, Node) + Item (no id)
    SchemaDef {
        sdl: "type Query {\n  viewer: User\n  item(id: ID!): Item\n  node(id: ID!): Node\n  count: Int\n  motd: String\n}\n\ninterface Node {\n  id: ID!\n}\n\ntype User implements Node {\n  id: ID!\n  name: String\n  age: Int\n  best: Item\n  friend: User\n}\n\ntype Item {\n  title: String\n  price: Int\n  owner: User\n}\n",
        types: &[
            TypeDef {
                name: "Query",
                has_id: false,
                scalars: &["count", "motd"],
                objects: &[of("viewer", "", "User"), of("item", "(id: \"i1\")", "Item")],
            },
            TypeDef {
                name: "User",
                has_id: true,
                scalars: &["id", "name", "age"],
                objects: &[of("best", "", "Item"), of("friend", "", "User")],
            },
            TypeDef { name: "Item", has_id: false, scalars: &["title", "price"], objects: &[of("owner", "", "User")] },
        ],
    },
    // 1: no `id` anywhere, no Node interface
    SchemaDef {
        sdl: "type Query {\n  me: Person\n  count: Int\n}\n\ntype Person {\n  name: String\n  nick: String\n  pet: Animal\n}\n\ntype Animal {\n  name: String\n  legs: Int\n  owner: Person\n}\n",
        types: &[
            TypeDef { name: "Query", has_id: false, scalars: &["count"], objects: &[of("me", "", "Person")] },
            TypeDef { name: "Person", has_id: false, scalars: &["name", "nick"], objects: &[of("pet", "", "Animal")] },
            TypeDef { name: "Animal", has_id: false, scalars: &["name", "legs"], objects: &[of("owner", "", "Person")] },
        ],
    },
    // 2: three object types, all with id
    SchemaDef {
        sdl: "type Query {\n  viewer: User\n  top: Post\n  tag: Tag\n  node(id: ID!): Node\n  version: String\n}\n\ninterface Node {\n  id: ID!\n}\n\ntype User implements Node {\n  id: ID!\n  name: String\n  posts: [Post!]!\n}\n\ntype Post implements Node {\n  id: ID!\n  title: String\n  author: User\n  tags: [Tag!]\n}\n\ntype Tag implements Node {\n  id: ID!\n  label: String\n}\n",
        types: &[
            TypeDef {
                name: "Query",
                has_id: false,
                scalars: &["version"],
                objects: &[of("viewer", "", "User"), of("top", "", "Post"), of("tag", "", "Tag")],
            },
            TypeDef { name: "User", has_id: true, scalars: &["id", "name"], objects: &[of("posts", "", "Post")] },
            TypeDef {
                name: "Post",
                has_id: true,
                scalars: &["id", "title"],
                objects: &[of("author", "", "User"), of("tags", "", "Tag")],
            },
            TypeDef { name: "Tag", has_id: true, scalars: &["id", "label"], objects: &[] },
        ],
    },
];

fn type_def(schema: usize, name: &str) -> Option<&'static TypeDef> {
    SCHEMAS[schema % SCHEMAS.len()].types.iter().find(|t| t.name == name)
}

pub const FIELD_NAMES: &[&str] = &["Home", "Card", "Badge", "Row", "Detail", "HomeRoute", "Avatar", "List"];
pub const FILE_PATHS: &[&str] = &["a.ts", "b.tsx", "sub/c.ts", "sub/deep/d.jsx", "e.js"];

// ---------------------------------------------------------------------------------------------
// model
// ---------------------------------------------------------------------------------------------

#[derive(Clone, Debug, PartialEq, Eq, Hash)]
pub enum Sel {
    Scalar(String),
    /// server object field: (name, printed args, target type, sub-selections)
    Object(String, String, String, Vec<Sel>),
    /// client field of the enclosing type, optionally `@loadable`
    Client(String, bool),
    Refetch,
    /// injected error: printed verbatim as one selection (may span lines)
    Raw(String),
}

#[derive(Clone, Debug, PartialEq, Eq, Hash)]
pub enum Decl {
    Field { ty: String, name: String, component: bool, sels: Vec<Sel> },
    Entrypoint { name: String },
    /// injected error: the literal's text, printed verbatim between the back-ticks
    Raw(String),
}

#[derive(Clone, Debug, PartialEq, Eq, Hash)]
pub struct SrcFile {
    pub path: String,
    pub decls: Vec<Decl>,
}

#[derive(Clone, Copy, Debug, PartialEq, Eq, Hash)]
pub enum SchemaState {
    Present,
    Missing,
    Garbage,
}

#[derive(Clone, Debug, PartialEq, Eq, Hash)]
pub struct Config {
    pub commonjs: bool,
    /// artifacts go to `./gen/__isograph` instead of `./src/__isograph`
    pub separate_artifact_dir: bool,
    pub header: bool,
    pub persisted: bool,
}

#[derive(Clone, Debug, PartialEq, Eq, Hash)]
pub struct Project {
    pub schema: usize,
    pub schema_state: SchemaState,
    pub config: Config,
    pub files: Vec<SrcFile>,
}

impl Project {
    pub fn artifact_dir_rel(&self) -> &'static str {
        if self.config.separate_artifact_dir { "gen/__isograph" } else { "src/__isograph" }
    }

    pub fn fields(&self) -> Vec<(usize, usize)> {
        let mut out = vec![];
        for (fi, f) in self.files.iter().enumerate() {
            for (di, d) in f.decls.iter().enumerate() {
                if matches!(d, Decl::Field { .. }) {
                    out.push((fi, di));
                }
            }
        }
        out
    }

    pub fn entrypoints(&self) -> Vec<(usize, usize)> {
        let mut out = vec![];
        for (fi, f) in self.files.iter().enumerate() {
            for (di, d) in f.decls.iter().enumerate() {
                if matches!(d, Decl::Entrypoint { .. }) {
                    out.push((fi, di));
                }
            }
        }
        out
    }

    pub fn field_keys(&self) -> BTreeSet<(String, String)> {
        self.fields()
            .into_iter()
            .filter_map(|(f, d)| match &self.files[f].decls[d] {
                Decl::Field { ty, name, .. } => Some((ty.clone(), name.clone())),
                _ => None,
            })
            .collect()
    }

    pub fn client_field_count(&self) -> usize {
        self.fields().len()
    }

    /// Does the model contain an injected error (or a dangling reference)? Only for labels.
    pub fn model_says_invalid(&self) -> bool {
        if self.schema_state != SchemaState::Present {
            return true;
        }
        let keys = self.field_keys();
        let mut seen = BTreeSet::new();
        fn sels_bad(ty: &str, sels: &[Sel], keys: &BTreeSet<(String, String)>) -> bool {
            sels.iter().any(|s| match s {
                Sel::Raw(_) => true,
                Sel::Client(n, _) => !keys.contains(&(ty.to_string(), n.clone())),
                Sel::Object(_, _, target, sub) => sels_bad(target, sub, keys),
                _ => false,
            })
        }
        for f in &self.files {
            for d in &f.decls {
                match d {
                    Decl::Raw(_) => return true,
                    Decl::Entrypoint { name } => {
                        if !keys.contains(&("Query".to_string(), name.clone())) {
                            return true;
                        }
                    }
                    Decl::Field { ty, name, sels, .. } => {
                        if !seen.insert((ty.clone(), name.clone())) {
                            return true;
                        }
                        if sels_bad(ty, sels, &keys) {
                            return true;
                        }
                    }
                }
            }
        }
        false
    }

    // ---- printing ---------------------------------------------------------------------------

    pub fn config_json(&self) -> String {
        let mut options = serde_json::Map::new();
        options.insert("module".into(), json!(if self.config.commonjs { "commonjs" } else { "esmodule" }));
        if self.config.header {
            options.insert("generated_file_header".into(), json!("generated for verification"));
        }
        if self.config.persisted {
            options.insert("persisted_documents".into(), json!({"algorithm": "md5"}));
        }
        let mut root = serde_json::Map::new();
        root.insert("project_root".into(), json!("./src"));
        if self.config.separate_artifact_dir {
            root.insert("artifact_directory".into(), json!("./gen"));
        }
        root.insert("schema".into(), json!("./schema.graphql"));
        root.insert("options".into(), Value::Object(options));
        serde_json::to_string_pretty(&Value::Object(root)).unwrap()
    }

    /// Every file of the project (relative path -> text), without `isograph.config.json`.
    /// `schema.graphql` is absent when the schema is `Missing`.
    pub fn print(&self) -> BTreeMap<String, String> {
        let mut out = BTreeMap::new();
        match self.schema_state {
            SchemaState::Present => {
                out.insert("schema.graphql".to_string(), SCHEMAS[self.schema % SCHEMAS.len()].sdl.to_string());
            }
            SchemaState::Garbage => {
                out.insert(
                    "schema.graphql".to_string(),
                    format!("{}\ntype Broken {{ {{\n", SCHEMAS[self.schema % SCHEMAS.len()].sdl),
                );
            }
            SchemaState::Missing => {}
        }
        for f in &self.files {
            out.insert(format!("src/{}", f.path), print_file(f));
        }
        out
    }

    pub fn printed(&self) -> Printed {
        Printed { artifact_dir: self.artifact_dir_rel().to_string(), config: self.config_json(), files: self.print() }
    }
}

/// A project as files: what the interpreter and replay files work on (no model needed).
#[derive(Clone, Debug, PartialEq, Eq, Hash)]
pub struct Printed {
    /// artifact directory relative to the project directory
    pub artifact_dir: String,
    /// text of isograph.config.json
    pub config: String,
    /// relative path -> text (schema.graphql absent = schema file missing)
    pub files: BTreeMap<String, String>,
}

impl Printed {
    pub fn to_json(&self) -> Value {
        json!({"artifact_dir": self.artifact_dir, "config": self.config, "files": self.files})
    }
    pub fn from_json(v: &Value) -> Option<Printed> {
        Some(Printed {
            artifact_dir: v["artifact_dir"].as_str()?.to_string(),
            config: v["config"].as_str()?.to_string(),
            files: v["files"].as_object()?.iter().map(|(k, v)| (k.clone(), v.as_str().unwrap_or_default().to_string())).collect(),
        })
    }
}

fn print_sels(sels: &[Sel], indent: usize, out: &mut String) {
    let pad = " ".repeat(indent);
    for s in sels {
        match s {
            Sel::Scalar(n) => out.push_str(&format!("{pad}{n}\n")),
            Sel::Refetch => out.push_str(&format!("{pad}__refetch\n")),
            Sel::Client(n, loadable) => {
                out.push_str(&format!("{pad}{n}{}\n", if *loadable { " @loadable" } else { "" }))
            }
            Sel::Raw(t) => out.push_str(&format!("{pad}{t}\n")),
            Sel::Object(n, args, _, sub) => {
                out.push_str(&format!("{pad}{n}{args} {{\n"));
                print_sels(sub, indent + 2, out);
                out.push_str(&format!("{pad}}}\n"));
            }
        }
    }
}

fn print_file(f: &SrcFile) -> String {
    let mut out = String::from("import { iso } from '@iso';\n\n// generated source file\n");
    for (i, d) in f.decls.iter().enumerate() {
        match d {
            Decl::Field { ty, name, component, sels } => {
                out.push_str(&format!("export const decl{i} = iso(`\n  field {ty}.{name}"));
                if *component {
                    out.push_str(" @component");
                }
                out.push_str(" {\n");
                print_sels(sels, 4, &mut out);
                out.push_str("  }\n`)(function Impl(props) {\n  return null;\n});\n\n");
            }
            Decl::Entrypoint { name } => {
                out.push_str(&format!("export const decl{i} = iso(`entrypoint Query.{name}`);\n\n"));
            }
            Decl::Raw(text) => {
                out.push_str(&format!("export const decl{i} = iso(`{text}`)(function Impl() {{\n  return null;\n}});\n\n"));
            }
        }
    }
    out.push_str("export const unrelated = 1;\n");
    out
}

// ---------------------------------------------------------------------------------------------
// generation from seeds (construction, no rejection)
// ---------------------------------------------------------------------------------------------

#[derive(Clone, Debug, PartialEq, Eq, Hash)]
pub struct SelSeed {
    pub pick: u16,
    pub sub: Vec<u16>,
    pub flag: bool,
}

#[derive(Clone, Debug, PartialEq, Eq, Hash)]
pub struct FieldSeed {
    pub ty: u16,
    pub name: u16,
    pub component: bool,
    pub sels: Vec<SelSeed>,
    pub file: u16,
    pub entrypoint: bool,
}

#[derive(Clone, Debug, PartialEq, Eq, Hash)]
pub struct ProjectSeed {
    pub schema: u16,
    pub nfiles: u8,
    pub fields: Vec<FieldSeed>,
    pub config: (bool, bool, bool, bool),
}

pub fn sel_seed() -> impl Strategy<Value = SelSeed> {
    (any::<u16>(), prop::collection::vec(any::<u16>(), 1..4), any::<bool>())
        .prop_map(|(pick, sub, flag)| SelSeed { pick, sub, flag })
}

pub fn field_seed() -> impl Strategy<Value = FieldSeed> {
    (
        any::<u16>(),
        any::<u16>(),
        any::<bool>(),
        prop::collection::vec(sel_seed(), 0..5),
        any::<u16>(),
        prop::bool::weighted(0.6),
    )
        .prop_map(|(ty, name, component, sels, file, entrypoint)| FieldSeed {
            ty,
            name,
            component,
            sels,
            file,
            entrypoint,
        })
}

/// `max_fields` = 0 gives the "no client fields" shape (only root artifacts).
pub fn project_seed(max_fields: usize) -> impl Strategy<Value = ProjectSeed> {
    (
        any::<u16>(),
        prop_oneof![1 => Just(0u8), 12 => 1u8..=4],
        prop::collection::vec(field_seed(), if max_fields == 0 { 0..=0 } else { 2.min(max_fields)..=max_fields + 2 }),
        (any::<bool>(), prop::bool::weighted(0.3), prop::bool::weighted(0.3), prop::bool::weighted(0.3)),
    )
        .prop_map(|(schema, nfiles, fields, config)| ProjectSeed { schema, nfiles, fields, config })
}

/// Candidate selections of type `ty` given the client fields defined so far.
fn build_sels(schema: usize, ty: &str, seeds: &[SelSeed], existing: &[(String, String)], depth: usize) -> Vec<Sel> {
    let Some(td) = type_def(schema, ty) else { return vec![] };
    let clients: Vec<&String> = existing.iter().filter(|(t, _)| t == ty).map(|(_, n)| n).collect();
    let mut names = BTreeSet::new();
    let mut out = vec![];
    for s in seeds {
        let n_obj = if depth < 2 { td.objects.len() } else { 0 };
        let n_ref = if td.has_id { 1 } else { 0 };
        let total = td.scalars.len() + n_obj + clients.len() + n_ref;
        if total == 0 {
            continue;
        }
        let i = vcore::pick_index(s.pick, total);
        let sel = if i < td.scalars.len() {
            Sel::Scalar(td.scalars[i].to_string())
        } else if i < td.scalars.len() + n_obj {
            let o = &td.objects[i - td.scalars.len()];
            let sub_seeds: Vec<SelSeed> =
                s.sub.iter().map(|p| SelSeed { pick: *p, sub: vec![*p], flag: s.flag }).collect();
            let mut sub = build_sels(schema, o.target, &sub_seeds, existing, depth + 1);
            if sub.is_empty() {
                // an object selection needs at least one sub-selection
                if let Some(t) = type_def(schema, o.target) {
                    sub.push(Sel::Scalar(t.scalars[0].to_string()));
                }
            }
            Sel::Object(o.name.to_string(), o.args.to_string(), o.target.to_string(), sub)
        } else if i < td.scalars.len() + n_obj + clients.len() {
            let n = clients[i - td.scalars.len() - n_obj];
            Sel::Client(n.clone(), s.flag && td.has_id)
        } else {
            Sel::Refetch
        };
        let key = match &sel {
            Sel::Scalar(n) | Sel::Client(n, _) | Sel::Object(n, _, _, _) => n.clone(),
            Sel::Refetch => "__refetch".to_string(),
            Sel::Raw(t) => t.clone(),
        };
        if names.insert(key) {
            out.push(sel);
        }
    }
    out
}

fn unique_name(ty: &str, want: u16, existing: &[(String, String)]) -> Option<String> {
    let start = vcore::pick_index(want, FIELD_NAMES.len());
    (0..FIELD_NAMES.len())
        .map(|k| FIELD_NAMES[(start + k) % FIELD_NAMES.len()])
        .find(|n| !existing.iter().any(|(t, e)| t == ty && e == n))
        .map(|s| s.to_string())
}

/// Does client field `from` select client field `to`, directly or through other client fields?
fn reaches(p: &Project, from: &(String, String), to: &(String, String)) -> bool {
    fn direct(owner: &str, sels: &[Sel], out: &mut Vec<(String, String)>) {
        for s in sels {
            match s {
                Sel::Client(n, _) => out.push((owner.to_string(), n.clone())),
                Sel::Object(_, _, t, sub) => direct(t, sub, out),
                _ => {}
            }
        }
    }
    let mut stack = vec![from.clone()];
    let mut seen = BTreeSet::new();
    while let Some(k) = stack.pop() {
        if !seen.insert(k.clone()) {
            continue;
        }
        for f in &p.files {
            for d in &f.decls {
                if let Decl::Field { ty, name, sels, .. } = d {
                    if *ty == k.0 && *name == k.1 {
                        let mut out = vec![];
                        direct(ty, sels, &mut out);
                        for o in out {
                            if o == *to {
                                return true;
                            }
                            stack.push(o);
                        }
                    }
                }
            }
        }
    }
    false
}

fn ordered_field_keys(p: &Project) -> Vec<(String, String)> {
    let mut out = vec![];
    for f in &p.files {
        for d in &f.decls {
            if let Decl::Field { ty, name, .. } = d {
                out.push((ty.clone(), name.clone()));
            }
        }
    }
    out
}

/// Add one client field built from `seed` to the project (no-op when there is no file or no free
/// name). The new field only selects client fields that already exist, so no cycle can arise.
pub fn add_field(p: &mut Project, seed: &FieldSeed) -> bool {
    if p.files.is_empty() {
        return false;
    }
    let schema = p.schema % SCHEMAS.len();
    let types = SCHEMAS[schema].types;
    // Query twice as likely: entrypoints need Query fields
    let ti = vcore::pick_index(seed.ty, types.len() + 1);
    let ty = types[ti.saturating_sub(1)].name;
    let existing = ordered_field_keys(p);
    let Some(name) = unique_name(ty, seed.name, &existing) else { return false };
    let sels = build_sels(schema, ty, &seed.sels, &existing, 0);
    let fi = vcore::pick_index(seed.file, p.files.len());
    p.files[fi].decls.push(Decl::Field { ty: ty.to_string(), name: name.clone(), component: seed.component, sels });
    if seed.entrypoint && ty == "Query" {
        let fj = vcore::pick_index(seed.file.wrapping_mul(31), p.files.len());
        p.files[fj].decls.push(Decl::Entrypoint { name });
    }
    true
}

pub fn build_project(seed: &ProjectSeed) -> Project {
    let mut p = Project {
        schema: seed.schema as usize % SCHEMAS.len(),
        schema_state: SchemaState::Present,
        config: Config {
            commonjs: seed.config.0,
            separate_artifact_dir: seed.config.1,
            header: seed.config.2,
            persisted: seed.config.3,
        },
        files: (0..seed.nfiles as usize)
            .map(|i| SrcFile { path: FILE_PATHS[i % FILE_PATHS.len()].to_string(), decls: vec![] })
            .collect(),
    };
    if p.files.is_empty() && !seed.fields.is_empty() {
        p.files.push(SrcFile { path: FILE_PATHS[0].to_string(), decls: vec![] });
    }
    for f in &seed.fields {
        add_field(&mut p, f);
    }
    p
}

// ---------------------------------------------------------------------------------------------
// edit scripts
// ---------------------------------------------------------------------------------------------

#[derive(Clone, Copy, Debug, PartialEq, Eq, Hash)]
pub enum ErrorKind {
    UndefinedField,
    UndefinedType,
    ParseErrorInSelection,
    ParseErrorKeyword,
    DuplicateDefinition,
    UndefinedEntrypoint,
    ScalarWithSubselection,
    ObjectWithoutSelection,
    MissingSchema,
    GarbageSchema,
}

pub const ERROR_KINDS: &[ErrorKind] = &[
    ErrorKind::UndefinedField,
    ErrorKind::UndefinedType,
    ErrorKind::ParseErrorInSelection,
    ErrorKind::ParseErrorKeyword,
    ErrorKind::DuplicateDefinition,
    ErrorKind::UndefinedEntrypoint,
    ErrorKind::ScalarWithSubselection,
    ErrorKind::ObjectWithoutSelection,
    ErrorKind::MissingSchema,
    ErrorKind::GarbageSchema,
];

#[derive(Clone, Debug, PartialEq, Eq, Hash)]
pub enum EditOp {
    AddField(FieldSeed),
    /// remove a client field and everything that refers to it
    RemoveField(u16),
    /// remove only the definition (dangling references become compile errors)
    RemoveFieldDangling(u16),
    RenameField(u16, u16),
    AddEntrypoint(u16, u16),
    RemoveEntrypoint(u16),
    AddFile,
    /// remove a source file and everything that refers to what it defined
    RemoveFile(u16),
    /// add or remove one selection of a client field
    ChangeSelection(u16, SelSeed),
    ToggleComponent(u16),
    MoveDecl(u16, u16),
    /// remove every client field and entrypoint (only root artifacts remain)
    RemoveAllFields,
    /// remove every client field of one type (a whole entity disappears from the artifacts)
    RemoveEntity(u16),
    InjectError(ErrorKind, u16),
    /// remove every injected error and dangling reference
    FixErrors,
}

impl EditOp {
    pub fn label(&self) -> &'static str {
        match self {
            EditOp::AddField(_) => "edit:add-field",
            EditOp::RemoveField(_) => "edit:remove-field",
            EditOp::RemoveFieldDangling(_) => "edit:remove-field-dangling",
            EditOp::RenameField(..) => "edit:rename-field",
            EditOp::AddEntrypoint(..) => "edit:add-entrypoint",
            EditOp::RemoveEntrypoint(_) => "edit:remove-entrypoint",
            EditOp::AddFile => "edit:add-file",
            EditOp::RemoveFile(_) => "edit:remove-file",
            EditOp::ChangeSelection(..) => "edit:change-selection",
            EditOp::ToggleComponent(_) => "edit:toggle-component",
            EditOp::MoveDecl(..) => "edit:move-decl",
            EditOp::RemoveAllFields => "edit:remove-all-fields",
            EditOp::RemoveEntity(_) => "edit:remove-entity",
            EditOp::InjectError(k, _) => match k {
                ErrorKind::UndefinedField => "edit:error-undefined-field",
                ErrorKind::UndefinedType => "edit:error-undefined-type",
                ErrorKind::ParseErrorInSelection => "edit:error-parse-selection",
                ErrorKind::ParseErrorKeyword => "edit:error-parse-keyword",
                ErrorKind::DuplicateDefinition => "edit:error-duplicate-definition",
                ErrorKind::UndefinedEntrypoint => "edit:error-undefined-entrypoint",
                ErrorKind::ScalarWithSubselection => "edit:error-scalar-with-subselection",
                ErrorKind::ObjectWithoutSelection => "edit:error-object-without-selection",
                ErrorKind::MissingSchema => "edit:error-missing-schema",
                ErrorKind::GarbageSchema => "edit:error-garbage-schema",
            },
            EditOp::FixErrors => "edit:fix-errors",
        }
    }
}

pub fn valid_edit() -> impl Strategy<Value = EditOp> {
    prop_oneof![
        7 => field_seed().prop_map(EditOp::AddField),
        3 => any::<u16>().prop_map(EditOp::RemoveField),
        2 => (any::<u16>(), any::<u16>()).prop_map(|(a, b)| EditOp::RenameField(a, b)),
        2 => (any::<u16>(), any::<u16>()).prop_map(|(a, b)| EditOp::AddEntrypoint(a, b)),
        2 => any::<u16>().prop_map(EditOp::RemoveEntrypoint),
        1 => Just(EditOp::AddFile),
        1 => any::<u16>().prop_map(EditOp::RemoveFile),
        5 => (any::<u16>(), sel_seed()).prop_map(|(a, s)| EditOp::ChangeSelection(a, s)),
        1 => any::<u16>().prop_map(EditOp::ToggleComponent),
        1 => (any::<u16>(), any::<u16>()).prop_map(|(a, b)| EditOp::MoveDecl(a, b)),
        1 => Just(EditOp::RemoveAllFields),
        1 => any::<u16>().prop_map(EditOp::RemoveEntity),
    ]
}

pub fn error_edit() -> impl Strategy<Value = EditOp> {
    prop_oneof![
        8 => (prop::sample::select(ERROR_KINDS.to_vec()), any::<u16>()).prop_map(|(k, p)| EditOp::InjectError(k, p)),
        1 => any::<u16>().prop_map(EditOp::RemoveFieldDangling),
    ]
}

fn remove_refs(p: &mut Project, ty: &str, name: &str) {
    fn strip(owner: &str, sels: &mut Vec<Sel>, ty: &str, name: &str) {
        sels.retain(|s| !matches!(s, Sel::Client(n, _) if owner == ty && n == name));
        for s in sels.iter_mut() {
            if let Sel::Object(_, _, target, sub) = s {
                let t = target.clone();
                strip(&t, sub, ty, name);
            }
        }
        // an object selection needs at least one sub-selection: drop the ones that became empty
        sels.retain(|s| !matches!(s, Sel::Object(_, _, _, sub) if sub.is_empty()));
    }
    for f in &mut p.files {
        f.decls.retain(|d| !matches!(d, Decl::Entrypoint { name: n } if ty == "Query" && n == name));
        for d in &mut f.decls {
            if let Decl::Field { ty: owner, sels, .. } = d {
                let o = owner.clone();
                strip(&o, sels, ty, name);
            }
        }
    }
}

fn rename_refs(p: &mut Project, ty: &str, old: &str, new: &str) {
    fn ren(owner: &str, sels: &mut [Sel], ty: &str, old: &str, new: &str) {
        for s in sels.iter_mut() {
            match s {
                Sel::Client(n, _) if owner == ty && n == old => *n = new.to_string(),
                Sel::Object(_, _, target, sub) => {
                    let t = target.clone();
                    ren(&t, sub, ty, old, new)
                }
                _ => {}
            }
        }
    }
    for f in &mut p.files {
        for d in &mut f.decls {
            match d {
                Decl::Entrypoint { name } if ty == "Query" && name == old => *name = new.to_string(),
                Decl::Field { ty: owner, sels, .. } => {
                    let o = owner.clone();
                    ren(&o, sels, ty, old, new)
                }
                _ => {}
            }
        }
    }
}

fn remove_field_at(p: &mut Project, at: (usize, usize), cascade: bool) {
    let Decl::Field { ty, name, .. } = p.files[at.0].decls.remove(at.1) else { return };
    if cascade {
        remove_refs(p, &ty, &name);
    }
}

/// Remove every dangling reference (client selections / entrypoints of undefined fields).
fn drop_dangling(p: &mut Project) {
    loop {
        let keys = p.field_keys();
        let mut dangling: Vec<(String, String)> = vec![];
        fn collect(owner: &str, sels: &[Sel], keys: &BTreeSet<(String, String)>, out: &mut Vec<(String, String)>) {
            for s in sels {
                match s {
                    Sel::Client(n, _) if !keys.contains(&(owner.to_string(), n.clone())) => {
                        out.push((owner.to_string(), n.clone()))
                    }
                    Sel::Object(_, _, t, sub) => collect(t, sub, keys, out),
                    _ => {}
                }
            }
        }
        for f in &p.files {
            for d in &f.decls {
                match d {
                    Decl::Entrypoint { name } if !keys.contains(&("Query".to_string(), name.clone())) => {
                        dangling.push(("Query".to_string(), name.clone()))
                    }
                    Decl::Field { ty, sels, .. } => collect(ty, sels, &keys, &mut dangling),
                    _ => {}
                }
            }
        }
        if dangling.is_empty() {
            break;
        }
        for (t, n) in dangling {
            remove_refs(p, &t, &n);
        }
    }
}

/// Apply one edit. Returns false when the edit did not apply (nothing to remove, ...).
pub fn apply_edit(p: &mut Project, op: &EditOp) -> bool {
    let before = p.clone();
    match op {
        EditOp::AddField(seed) => {
            if p.files.is_empty() {
                p.files.push(SrcFile { path: FILE_PATHS[0].to_string(), decls: vec![] });
            }
            add_field(p, seed);
        }
        EditOp::RemoveField(i) | EditOp::RemoveFieldDangling(i) => {
            let fields = p.fields();
            if !fields.is_empty() {
                let at = fields[vcore::pick_index(*i, fields.len())];
                remove_field_at(p, at, matches!(op, EditOp::RemoveField(_)));
            }
        }
        EditOp::RenameField(i, n) => {
            let fields = p.fields();
            if !fields.is_empty() {
                let at = fields[vcore::pick_index(*i, fields.len())];
                let (ty, old) = match &p.files[at.0].decls[at.1] {
                    Decl::Field { ty, name, .. } => (ty.clone(), name.clone()),
                    _ => unreachable!(),
                };
                let existing = ordered_field_keys(p);
                if let Some(new) = unique_name(&ty, *n, &existing) {
                    if let Decl::Field { name, .. } = &mut p.files[at.0].decls[at.1] {
                        *name = new.clone();
                    }
                    rename_refs(p, &ty, &old, &new);
                }
            }
        }
        EditOp::AddEntrypoint(i, f) => {
            let have: BTreeSet<String> = p
                .entrypoints()
                .into_iter()
                .filter_map(|(a, b)| match &p.files[a].decls[b] {
                    Decl::Entrypoint { name } => Some(name.clone()),
                    _ => None,
                })
                .collect();
            let cands: Vec<String> = ordered_field_keys(p)
                .into_iter()
                .filter(|(t, n)| t == "Query" && !have.contains(n))
                .map(|(_, n)| n)
                .collect();
            if !cands.is_empty() && !p.files.is_empty() {
                let name = cands[vcore::pick_index(*i, cands.len())].clone();
                let fi = vcore::pick_index(*f, p.files.len());
                p.files[fi].decls.push(Decl::Entrypoint { name });
            }
        }
        EditOp::RemoveEntrypoint(i) => {
            let eps = p.entrypoints();
            if !eps.is_empty() {
                let at = eps[vcore::pick_index(*i, eps.len())];
                p.files[at.0].decls.remove(at.1);
            }
        }
        EditOp::AddFile => {
            if let Some(path) = FILE_PATHS.iter().find(|c| !p.files.iter().any(|f| f.path == **c)) {
                p.files.push(SrcFile { path: path.to_string(), decls: vec![] });
            }
        }
        EditOp::RemoveFile(i) => {
            if !p.files.is_empty() {
                let fi = vcore::pick_index(*i, p.files.len());
                p.files.remove(fi);
                drop_dangling(p);
            }
        }
        EditOp::ChangeSelection(i, seed) => {
            let fields = p.fields();
            if !fields.is_empty() {
                let idx = vcore::pick_index(*i, fields.len());
                let at = fields[idx];
                let schema = p.schema % SCHEMAS.len();
                // only fields that do not (transitively) select this one may be selected: the
                // reference graph stays acyclic (a cycle overflows the compiler's stack, see C08)
                let this = match &p.files[at.0].decls[at.1] {
                    Decl::Field { ty, name, .. } => (ty.clone(), name.clone()),
                    _ => unreachable!(),
                };
                let existing: Vec<(String, String)> = ordered_field_keys(p)
                    .into_iter()
                    .filter(|k| *k != this && !reaches(p, k, &this))
                    .collect();
                if let Decl::Field { ty, sels, .. } = &mut p.files[at.0].decls[at.1] {
                    if seed.flag && !sels.is_empty() {
                        let k = vcore::pick_index(seed.pick, sels.len());
                        sels.remove(k);
                    } else {
                        let new = build_sels(schema, ty, std::slice::from_ref(seed), &existing, 0);
                        for n in new {
                            let key = |s: &Sel| match s {
                                Sel::Scalar(n) | Sel::Client(n, _) | Sel::Object(n, _, _, _) => n.clone(),
                                Sel::Refetch => "__refetch".to_string(),
                                Sel::Raw(t) => t.clone(),
                            };
                            if !sels.iter().any(|s| key(s) == key(&n)) {
                                sels.push(n);
                            }
                        }
                    }
                }
            }
        }
        EditOp::ToggleComponent(i) => {
            let fields = p.fields();
            if !fields.is_empty() {
                let at = fields[vcore::pick_index(*i, fields.len())];
                if let Decl::Field { component, .. } = &mut p.files[at.0].decls[at.1] {
                    *component = !*component;
                }
            }
        }
        EditOp::MoveDecl(i, f) => {
            // moving a field definition between files keeps definition order irrelevant for the
            // compiler, but the harness' acyclicity argument uses file order: move only entrypoints
            let eps = p.entrypoints();
            if !eps.is_empty() && p.files.len() > 1 {
                let at = eps[vcore::pick_index(*i, eps.len())];
                let d = p.files[at.0].decls.remove(at.1);
                let fi = vcore::pick_index(*f, p.files.len());
                p.files[fi].decls.push(d);
            }
        }
        EditOp::RemoveAllFields => {
            for f in &mut p.files {
                f.decls.retain(|d| matches!(d, Decl::Raw(_)));
            }
        }
        EditOp::RemoveEntity(i) => {
            let tys: Vec<String> = p.field_keys().into_iter().map(|(t, _)| t).collect::<BTreeSet<_>>().into_iter().collect();
            if !tys.is_empty() {
                let ty = tys[vcore::pick_index(*i, tys.len())].clone();
                for f in &mut p.files {
                    f.decls.retain(|d| !matches!(d, Decl::Field { ty: t, .. } if *t == ty));
                }
                drop_dangling(p);
            }
        }
        EditOp::InjectError(kind, i) => inject_error(p, *kind, *i),
        EditOp::FixErrors => {
            p.schema_state = SchemaState::Present;
            let mut seen = BTreeSet::new();
            for f in &mut p.files {
                f.decls.retain(|d| match d {
                    Decl::Raw(_) => false,
                    Decl::Field { ty, name, .. } => seen.insert((ty.clone(), name.clone())),
                    _ => true,
                });
                fn strip(sels: &mut Vec<Sel>) {
                    sels.retain(|s| !matches!(s, Sel::Raw(_)));
                    for s in sels.iter_mut() {
                        if let Sel::Object(_, _, _, sub) = s {
                            strip(sub);
                        }
                    }
                    sels.retain(|s| !matches!(s, Sel::Object(_, _, _, sub) if sub.is_empty()));
                }
                for d in &mut f.decls {
                    if let Decl::Field { sels, .. } = d {
                        strip(sels);
                    }
                }
            }
            drop_dangling(p);
        }
    }
    *p != before
}

fn inject_error(p: &mut Project, kind: ErrorKind, i: u16) {
    let schema = p.schema % SCHEMAS.len();
    let fields = p.fields();
    let field_at = if fields.is_empty() { None } else { Some(fields[vcore::pick_index(i, fields.len())]) };
    let ensure_file = |p: &mut Project| {
        if p.files.is_empty() {
            p.files.push(SrcFile { path: FILE_PATHS[0].to_string(), decls: vec![] });
        }
        vcore::pick_index(i, p.files.len())
    };
    let push_sel = |p: &mut Project, sel: Sel, fallback_decl: String| match field_at {
        Some(at) => {
            if let Decl::Field { sels, .. } = &mut p.files[at.0].decls[at.1] {
                sels.push(sel);
            }
        }
        None => {
            let fi = ensure_file(p);
            p.files[fi].decls.push(Decl::Raw(fallback_decl));
        }
    };
    let q = &SCHEMAS[schema].types[0];
    let _ = q.name;
    match kind {
        ErrorKind::UndefinedField => push_sel(
            p,
            Sel::Raw("doesNotExist".to_string()),
            "\n  field Query.Broken {\n    doesNotExist\n  }\n".to_string(),
        ),
        ErrorKind::ParseErrorInSelection => push_sel(
            p,
            Sel::Raw("oops(".to_string()),
            "\n  field Query.Broken {\n    oops(\n  }\n".to_string(),
        ),
        ErrorKind::ScalarWithSubselection => {
            let (owner, scalar) = match field_at {
                Some(at) => match &p.files[at.0].decls[at.1] {
                    Decl::Field { ty, .. } => (ty.clone(), type_def(schema, ty).map(|t| t.scalars[0]).unwrap_or("count")),
                    _ => unreachable!(),
                },
                None => ("Query".to_string(), q.scalars[0]),
            };
            let _ = owner;
            push_sel(
                p,
                Sel::Raw(format!("{scalar} {{\n      nested\n    }}")),
                format!("\n  field Query.Broken {{\n    {} {{\n      nested\n    }}\n  }}\n", q.scalars[0]),
            )
        }
        ErrorKind::ObjectWithoutSelection => {
            let obj = match field_at {
                Some(at) => match &p.files[at.0].decls[at.1] {
                    Decl::Field { ty, .. } => type_def(schema, ty).and_then(|t| t.objects.first()).map(|o| format!("{}{}", o.name, o.args)),
                    _ => None,
                },
                None => None,
            };
            match obj {
                // alias so that it cannot collide with an existing selection of the same field
                Some(o) => push_sel(p, Sel::Raw(format!("bare: {o}")), String::new()),
                None => {
                    let fi = ensure_file(p);
                    let o = &q.objects[0];
                    p.files[fi].decls.push(Decl::Raw(format!("\n  field Query.Broken {{\n    {}{}\n  }}\n", o.name, o.args)));
                }
            }
        }
        ErrorKind::UndefinedType => {
            let fi = ensure_file(p);
            p.files[fi].decls.push(Decl::Raw("\n  field Nowhere.Broken {\n    id\n  }\n".to_string()));
        }
        ErrorKind::ParseErrorKeyword => {
            let fi = ensure_file(p);
            p.files[fi].decls.push(Decl::Raw("\n  fild Query.Broken {\n    count\n  }\n".to_string()));
        }
        ErrorKind::DuplicateDefinition => match field_at {
            Some(at) => {
                let d = p.files[at.0].decls[at.1].clone();
                let fi = ensure_file(p);
                p.files[fi].decls.push(d);
            }
            None => {
                let fi = ensure_file(p);
                let s = q.scalars[0];
                for _ in 0..2 {
                    p.files[fi].decls.push(Decl::Raw(format!("\n  field Query.Twice {{\n    {s}\n  }}\n")));
                }
            }
        },
        ErrorKind::UndefinedEntrypoint => {
            let fi = ensure_file(p);
            p.files[fi].decls.push(Decl::Entrypoint { name: "NotDefinedAnywhere".to_string() });
        }
        ErrorKind::MissingSchema => p.schema_state = SchemaState::Missing,
        ErrorKind::GarbageSchema => p.schema_state = SchemaState::Garbage,
    }
}
