//! Histories of compiles over one project directory and their interpreter. A history works on
//! printed projects (files), so a replay file needs no generator.
use crate::project::Printed;
use crate::world::{diff_files, fault_plan, mismatch_class, Junk, Mode, Outcome, World};
use serde_json::{json, Value};
use std::path::Path;
use vcore::Fail;

#[derive(Clone, Debug, PartialEq, Eq, Hash)]
pub enum Init {
    /// the artifact directory does not exist
    Missing,
    Empty,
    Junk(Vec<Junk>),
    /// the artifacts of a successful compile of another project (made by a throw-away session),
    /// plus optional junk
    Previous(Printed, Vec<Junk>),
}

impl Init {
    pub fn label(&self) -> &'static str {
        match self {
            Init::Missing => "init:missing",
            Init::Empty => "init:empty",
            Init::Junk(_) => "init:junk",
            Init::Previous(_, j) if j.is_empty() => "init:previous-compile",
            Init::Previous(..) => "init:previous-compile+junk",
        }
    }
}

#[derive(Clone, Debug, PartialEq, Eq, Hash)]
pub struct StepSpec {
    pub project: Printed,
    pub mode: Mode,
    /// fail operation k of this compile's write plan; bool = truncated write
    pub fault: Option<(usize, bool)>,
    /// the process is killed right after this compile (the live session is dropped)
    pub kill_after: bool,
}

#[derive(Clone, Debug, PartialEq, Eq, Hash)]
pub struct History {
    pub init: Init,
    pub steps: Vec<StepSpec>,
}

#[derive(Clone, Copy, Debug, PartialEq, Eq)]
pub enum Prop {
    C17,
    C18,
    C19,
}

#[derive(Clone, Debug, Default)]
pub struct Stats {
    pub compiles: usize,
    pub ok: usize,
    pub diagnostics: usize,
    pub panics: usize,
    pub faulted: usize,
    /// failing compiles whose directory held artifacts and whose sources differ from the last
    /// successfully compiled ones (C17's non-trivial cases)
    pub c17_nontrivial: usize,
    /// successful compiles checked against the artifacts, by kind
    pub ok_first_of_session: usize,
    pub ok_same_session: usize,
    pub ok_cli: usize,
    pub ok_root_only: usize,
    pub ok_removed_something: usize,
    pub ok_after_fault: usize,
    pub minimality_checked: usize,
    /// operations started by each in-process compile
    pub operations_seen: Vec<usize>,
    pub labels: Vec<String>,
    pub outcomes: Vec<String>,
}

const WRITE_PHASE: &[&str] = &["delete directory", "create directory", "write contents of file", "delete file"];

fn write_phase_error(text: &str) -> Option<&'static str> {
    WRITE_PHASE.iter().find(|w| text.contains(&format!("Unable to {w} at path"))).copied()
}

pub fn prepare(base: &Path, h: &History) -> World {
    let first = &h.steps[0].project;
    match &h.init {
        Init::Previous(prev, junk) => {
            let mut prev = prev.clone();
            prev.config = first.config.clone();
            prev.artifact_dir = first.artifact_dir.clone();
            let mut w = World::create(base, &prev);
            let _ = w.compile(Mode::FreshState, &[], None);
            w.state = None;
            crate::world::write_junk(&w.art, junk);
            w.set_project(first);
            w
        }
        other => {
            let w = World::create(base, first);
            match other {
                Init::Missing => {}
                Init::Empty => std::fs::create_dir_all(&w.art).expect("create artifact dir"),
                Init::Junk(j) => crate::world::write_junk(&w.art, j),
                Init::Previous(..) => unreachable!(),
            }
            w
        }
    }
}

/// Run a history, checking what `prop` states after every compile.
pub fn run_history(base: &Path, h: &History, prop: Prop) -> Result<Stats, Fail> {
    let mut st = Stats::default();
    let mut w = prepare(base, h);
    st.labels.push(h.init.label().to_string());
    // does the live session's record of the directory match the directory?
    let mut clean = false;
    let mut last_ok_sources: Option<Printed> = None;
    let mut fault_pending = false;
    let mut last_ok_files: Option<crate::world::Files> = None;

    for (i, step) in h.steps.iter().enumerate() {
        let events = if i == 0 { vec![] } else { w.set_project(&step.project) };
        let before = w.snapshot();
        let check_min = prop == Prop::C18 && step.mode == Mode::SameSession && w.state.is_some() && clean;
        let aged = check_min || (prop == Prop::C17 && !before.files.is_empty());
        if aged {
            w.age_files();
        }
        let fault = step.fault.map(|(k, t)| fault_plan(k, t));
        let (mode_used, outcome) = w.compile(step.mode, &events, fault);
        st.compiles += 1;
        if mode_used != Mode::SameSession {
            // a new session knows nothing about the directory until its own first successful write
            clean = false;
        }
        if mode_used != Mode::FreshCli {
            st.operations_seen.push(w.last_operations_seen);
        }
        let after = w.snapshot();
        let ctx = |what: &str| {
            format!(
                "{what}\nstep {i} of {} (mode requested {:?}, used {:?}, fault {:?})\nartifact directory: {}",
                h.steps.len(),
                step.mode,
                mode_used,
                step.fault,
                step.project.artifact_dir
            )
        };
        match &outcome {
            Outcome::Panic(p) => {
                st.panics += 1;
                st.outcomes.push("panic".into());
                st.labels.push("compiler-panic(not judged here)".into());
                // never put raw panic text into a label: it contains scratch paths and thread ids
                st.labels.push(
                    if p.contains("Unable to canonicalize schema path") {
                        "panic:create_config(schema file missing)"
                    } else if p.contains("create_config") {
                        "panic:create_config(other)"
                    } else {
                        "panic:other(C08's subject)"
                    }
                    .to_string(),
                );
                clean = false;
            }
            Outcome::Faulted(_) => {
                st.faulted += 1;
                st.outcomes.push("faulted".into());
                fault_pending = true;
                clean = false;
            }
            Outcome::Diagnostics(text) => {
                st.diagnostics += 1;
                if let Some(what) = write_phase_error(text) {
                    st.outcomes.push("write-error".into());
                    clean = false;
                    // no fault was injected, the file system is a writable tmpfs and nobody else
                    // touched the directory: the compiler could not carry out its own plan
                    match prop {
                        Prop::C17 => st.labels.push("write-phase-error(outside C17's domain)".into()),
                        Prop::C18 => {
                            return Err(Fail::new(
                                format!("plan-not-applicable:{}", what.replace(' ', "-")),
                                ctx(&format!(
                                    "a compile of sources without errors failed while writing artifacts:\n{}",
                                    crate::world::tail(text, 300)
                                )),
                            ))
                        }
                        Prop::C19 => {
                            if fault_pending {
                                let session = if mode_used == Mode::SameSession { "same-session" } else { "fresh-session" };
                                return Err(Fail::new(
                                    format!("recovery-cannot-write:{session}:{}", what.replace(' ', "-")),
                                    ctx(&format!(
                                        "after an interrupted write the next compile fails while writing:\n{}",
                                        crate::world::tail(text, 300)
                                    )),
                                ));
                            }
                            st.labels.push("write-phase-error-before-any-fault(C18's subject)".into());
                        }
                    }
                } else {
                    st.outcomes.push("diagnostics".into());
                    if mode_used == Mode::SameSession && w.state.is_none() {
                        st.labels.push("watch-session-ended(update_sources error)".into());
                        clean = false;
                    }
                    if prop == Prop::C17 {
                        let nonempty = !before.files.is_empty();
                        let differs = last_ok_sources.as_ref() != Some(&step.project);
                        if nonempty && differs && last_ok_sources.is_some() {
                            st.c17_nontrivial += 1;
                        }
                        if before.files != after.files {
                            let class = mismatch_class(&before.files, &after.files);
                            return Err(Fail::new(
                                format!("failed-compile-changed-directory:{class}"),
                                ctx(&format!(
                                    "a compile that reported diagnostics changed the artifact directory:\n{}\ndiagnostics: {}",
                                    diff_files(&before.files, &after.files, 12).join("\n"),
                                    crate::world::tail(text, 300)
                                )),
                            ));
                        }
                        if before.empty_dirs != after.empty_dirs {
                            st.labels.push("failed-compile-changed-empty-directories".into());
                        }
                        if aged && !w.touched_since_aging().is_empty() {
                            // same bytes, newer modification time: recorded, not a violation
                            st.labels.push("failed-compile-rewrote-files-with-identical-content(mtime)".into());
                        }
                    }
                }
            }
            Outcome::Ok { .. } => {
                st.ok += 1;
                st.outcomes.push("ok".into());
                let expected = match mode_used {
                    Mode::FreshCli => w.fresh_artifacts(),
                    _ => w.live_artifacts().unwrap_or_else(|| Err("no live session".into())),
                };
                let expected = match expected {
                    Ok(e) => e,
                    Err(e) => {
                        // cannot happen for a compile that succeeded; harness trouble, not a verdict
                        let _ = e;
                        st.labels.push("expected-artifacts-unavailable".to_string());
                        clean = false;
                        continue;
                    }
                };
                match mode_used {
                    Mode::FreshCli => st.ok_cli += 1,
                    Mode::FreshState => st.ok_first_of_session += 1,
                    Mode::SameSession => st.ok_same_session += 1,
                }
                if !expected.keys().any(|k| k.contains('/')) {
                    st.ok_root_only += 1;
                }
                if let Some(prev) = &last_ok_files {
                    if prev.keys().any(|k| !expected.contains_key(k)) {
                        st.ok_removed_something += 1;
                    }
                }
                if fault_pending {
                    st.ok_after_fault += 1;
                }
                let judge = match prop {
                    Prop::C17 => false,
                    Prop::C18 => true,
                    Prop::C19 => fault_pending,
                };
                if judge && after.files != expected {
                    let class = mismatch_class(&expected, &after.files);
                    let session = match mode_used {
                        Mode::SameSession => "same-session",
                        _ => "first-compile-of-session",
                    };
                    let sig = match prop {
                        Prop::C19 => format!("not-repaired:{class}:{session}"),
                        _ => format!("directory-differs:{class}:{session}"),
                    };
                    return Err(Fail::new(
                        sig,
                        ctx(&format!(
                            "after a successful compile the artifact directory differs from the generated artifacts ({} expected, {} found):\n{}",
                            expected.len(),
                            after.files.len(),
                            diff_files(&expected, &after.files, 12).join("\n")
                        )),
                    ));
                }
                if !after.empty_dirs.is_empty() {
                    st.labels.push("left-over-empty-directories".into());
                }
                if !after.other.is_empty() {
                    st.labels.push("left-over-non-regular-entries".into());
                }
                if check_min && mode_used == Mode::SameSession {
                    st.minimality_checked += 1;
                    let rewritten: Vec<String> = w
                        .touched_since_aging()
                        .into_iter()
                        .filter(|f| before.files.get(f).is_some_and(|b| after.files.get(f) == Some(b)))
                        .collect();
                    if !rewritten.is_empty() {
                        return Err(Fail::new(
                            "rewrote-unchanged-artifact",
                            ctx(&format!(
                                "a later compile of the session wrote artifacts whose content did not change: {rewritten:?}"
                            )),
                        ));
                    }
                }
                if prop == Prop::C18 && i + 1 == h.steps.len() && mode_used != Mode::FreshCli {
                    // informational cross-check (C20's subject): live database vs brand-new database
                    match w.fresh_artifacts() {
                        Ok(f) if f != expected => st.labels.push("live-artifacts-differ-from-fresh-database(C20's subject)".into()),
                        _ => {}
                    }
                }
                clean = mode_used != Mode::FreshCli;
                fault_pending = false;
                last_ok_sources = Some(step.project.clone());
                last_ok_files = Some(expected);
            }
        }
        if step.kill_after {
            w.state = None;
            clean = false;
        }
    }
    Ok(st)
}

// ---------------------------------------------------------------------------------------------
// replay (de)serialisation
// ---------------------------------------------------------------------------------------------

fn junk_json(j: &[Junk]) -> Value {
    Value::Array(
        j.iter()
            .map(|j| match j {
                Junk::File(p, b) => json!(["file", p, String::from_utf8_lossy(b)]),
                Junk::Dir(p) => json!(["dir", p]),
            })
            .collect(),
    )
}

fn junk_from(v: &Value) -> Vec<Junk> {
    v.as_array()
        .map(|a| {
            a.iter()
                .filter_map(|e| match e[0].as_str()? {
                    "file" => Some(Junk::File(e[1].as_str()?.to_string(), e[2].as_str().unwrap_or("").as_bytes().to_vec())),
                    _ => Some(Junk::Dir(e[1].as_str()?.to_string())),
                })
                .collect()
        })
        .unwrap_or_default()
}

pub fn mode_name(m: Mode) -> &'static str {
    match m {
        Mode::SameSession => "same-session",
        Mode::FreshState => "fresh-state",
        Mode::FreshCli => "fresh-cli",
    }
}

impl History {
    pub fn to_json(&self, prop: &str) -> Value {
        let init = match &self.init {
            Init::Missing => json!({"kind": "missing"}),
            Init::Empty => json!({"kind": "empty"}),
            Init::Junk(j) => json!({"kind": "junk", "entries": junk_json(j)}),
            Init::Previous(p, j) => json!({"kind": "previous", "project": p.to_json(), "entries": junk_json(j)}),
        };
        // sources are stored once per distinct project to keep replays readable
        let steps: Vec<Value> = self
            .steps
            .iter()
            .map(|s| {
                json!({
                    "mode": mode_name(s.mode),
                    "fault": s.fault.map(|(k, t)| json!({"fail_at_operation": k, "truncated_write": t})),
                    "kill_after": s.kill_after,
                    "project": s.project.to_json(),
                })
            })
            .collect();
        json!({"kind": "history", "property": prop, "init": init, "steps": steps})
    }

    pub fn from_json(v: &Value) -> Option<History> {
        let init = match v["init"]["kind"].as_str()? {
            "missing" => Init::Missing,
            "empty" => Init::Empty,
            "junk" => Init::Junk(junk_from(&v["init"]["entries"])),
            _ => Init::Previous(Printed::from_json(&v["init"]["project"])?, junk_from(&v["init"]["entries"])),
        };
        let mut steps = vec![];
        for s in v["steps"].as_array()? {
            steps.push(StepSpec {
                project: Printed::from_json(&s["project"])?,
                mode: match s["mode"].as_str()? {
                    "same-session" => Mode::SameSession,
                    "fresh-cli" => Mode::FreshCli,
                    _ => Mode::FreshState,
                },
                fault: if s["fault"].is_null() {
                    None
                } else {
                    Some((s["fault"]["fail_at_operation"].as_u64()? as usize, s["fault"]["truncated_write"].as_bool().unwrap_or(false)))
                },
                kill_after: s["kill_after"].as_bool().unwrap_or(false),
            });
        }
        if steps.is_empty() {
            return None;
        }
        Some(History { init, steps })
    }
}
