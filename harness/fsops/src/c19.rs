//! C19 — an interrupted artifact write is repaired by the next successful compile.
//!
//! Fault enumeration. A base case is (initial directory, S0, edit E1, later edits, recovery
//! flavour). S0 is compiled, E1 is applied and compiled once without a fault to learn the length n
//! of the write plan (fault hook counter); then for EVERY operation index k < n (sampled above 64)
//! and every fault flavour the whole scenario is rebuilt from scratch and run with "operation k
//! fails":
//!   * error before the operation, recovery in the same session,
//!   * error after a truncated write, recovery in the same session,
//!   * error before the operation, then the process is gone (state dropped), recovery by a fresh
//!     `CompilerState`,
//!   * truncated write, process gone, recovery by a fresh CLI process.
//! The interrupted compile is either a later compile of a live session (plan = diff) or the first
//! compile of a session over the directory S0 left (plan = delete + rewrite everything).
//! Between the fault and the recovery there are zero or more further edits (each compiled).
//! Oracle: after the first successful compile following the fault, directory == the artifacts that
//! compile generated (C18's comparison); a recovery compile that cannot write at all on a benign
//! file system is a failure too.
use crate::hgen::{build_init, InitSeed};
use crate::history::{run_history, History, Prop, StepSpec};
use crate::project::{apply_edit, build_project, error_edit, project_seed, valid_edit, EditOp, ProjectSeed};
use crate::unit::junk;
use crate::world::Mode;
use crate::Samples;
use proptest::prelude::*;
use vcore::{Args, Fail, Report};

#[derive(Clone, Debug, PartialEq, Eq, Hash)]
struct Base {
    init: InitSeed,
    p0: ProjectSeed,
    e1: Vec<EditOp>,
    later: Vec<Vec<EditOp>>,
    s0_by_cli: bool,
}

fn base_seed() -> impl Strategy<Value = Base> {
    let init = prop_oneof![
        4 => Just(InitSeed::Empty),
        1 => Just(InitSeed::Missing),
        1 => junk().prop_map(InitSeed::Junk),
        2 => project_seed(3).prop_map(|p| InitSeed::Previous(p, vec![])),
    ];
    let later_step = prop_oneof![
        8 => prop::collection::vec(valid_edit(), 1..3),
        1 => error_edit().prop_map(|e| vec![e]),
        1 => Just(vec![EditOp::FixErrors]),
    ];
    (
        init,
        prop_oneof![1 => project_seed(0), 9 => project_seed(5)],
        prop::collection::vec(valid_edit(), 1..4),
        prop_oneof![3 => Just(vec![]), 4 => prop::collection::vec(later_step, 1..3)],
        prop::bool::weighted(0.2),
    )
        .prop_map(|(init, p0, e1, later, s0_by_cli)| Base { init, p0, e1, later, s0_by_cli })
}

#[derive(Clone, Copy, Debug, PartialEq, Eq, Hash)]
enum Shape {
    /// the interrupted compile is a later compile of the live session (diff plan)
    LaterCompile,
    /// the interrupted compile is the first compile of a new session (rewrite-everything plan)
    FirstCompile,
}

#[derive(Clone, Copy, Debug, PartialEq, Eq, Hash)]
enum Variant {
    ErrorSameSession,
    TruncatedSameSession,
    ErrorKilledFreshState,
    TruncatedKilledFreshCli,
}

const VARIANTS: &[Variant] = &[
    Variant::ErrorSameSession,
    Variant::TruncatedSameSession,
    Variant::ErrorKilledFreshState,
    Variant::TruncatedKilledFreshCli,
];

impl Variant {
    fn label(self) -> &'static str {
        match self {
            Variant::ErrorSameSession => "fault:error-before/recovery:same-session",
            Variant::TruncatedSameSession => "fault:truncated-write/recovery:same-session",
            Variant::ErrorKilledFreshState => "fault:error-before+process-killed/recovery:fresh-state",
            Variant::TruncatedKilledFreshCli => "fault:truncated-write+process-killed/recovery:fresh-cli",
        }
    }
}

/// The scenario as a concrete history. `fault` = None gives the dry run (history cut after the
/// compile that will be interrupted).
fn scenario(b: &Base, shape: Shape, fault: Option<(usize, Variant)>) -> (History, Vec<&'static str>) {
    let mut labels = vec![];
    let mut p = build_project(&b.p0);
    let mut steps = vec![StepSpec {
        project: p.printed(),
        // S0 compiled by a CLI process only in the scenarios that use the CLI anyway (cost)
        mode: if b.s0_by_cli && shape == Shape::FirstCompile && matches!(fault, Some((_, Variant::TruncatedKilledFreshCli))) {
            Mode::FreshCli
        } else {
            Mode::FreshState
        },
        fault: None,
        kill_after: false,
    }];
    for e in &b.e1 {
        if apply_edit(&mut p, e) {
            labels.push(e.label());
        }
    }
    let variant = fault.map(|f| f.1);
    let truncated = matches!(variant, Some(Variant::TruncatedSameSession | Variant::TruncatedKilledFreshCli));
    let killed = matches!(variant, Some(Variant::ErrorKilledFreshState | Variant::TruncatedKilledFreshCli));
    steps.push(StepSpec {
        project: p.printed(),
        mode: match shape {
            Shape::LaterCompile => Mode::SameSession,
            Shape::FirstCompile => Mode::FreshState,
        },
        fault: fault.map(|(k, _)| (k, truncated)),
        kill_after: killed,
    });
    let Some((_, variant)) = fault else { return (History { init: build_init(&b.init), steps }, labels) };
    let first_recovery_mode = match variant {
        Variant::ErrorSameSession | Variant::TruncatedSameSession => Mode::SameSession,
        Variant::ErrorKilledFreshState => Mode::FreshState,
        Variant::TruncatedKilledFreshCli => Mode::FreshCli,
    };
    let later_mode = match variant {
        Variant::TruncatedKilledFreshCli => Mode::FreshCli,
        _ => Mode::SameSession,
    };
    if b.later.is_empty() {
        labels.push("recovery:no-further-edit");
        steps.push(StepSpec { project: p.printed(), mode: first_recovery_mode, fault: None, kill_after: false });
    } else {
        labels.push("recovery:after-further-edits");
        for (i, edits) in b.later.iter().enumerate() {
            for e in edits {
                if apply_edit(&mut p, e) {
                    labels.push(e.label());
                }
            }
            steps.push(StepSpec {
                project: p.printed(),
                mode: if i == 0 { first_recovery_mode } else { later_mode },
                fault: None,
                kill_after: false,
            });
        }
        if p.model_says_invalid() {
            // make sure the history ends with a program that compiles
            apply_edit(&mut p, &EditOp::FixErrors);
            steps.push(StepSpec { project: p.printed(), mode: later_mode, fault: None, kill_after: false });
        }
    }
    (History { init: build_init(&b.init), steps }, labels)
}

fn sample_ks(n: usize) -> Vec<usize> {
    if n <= 64 {
        return (0..n).collect();
    }
    let mut ks: Vec<usize> = (0..4).chain(n - 4..n).collect();
    for i in 0..56 {
        ks.push(4 + i * (n - 8) / 56);
    }
    ks.sort();
    ks.dedup();
    ks
}

struct ScenarioResult {
    order: (usize, usize),
    key: u64,
    nontrivial: bool,
    labels: Vec<String>,
    history: History,
    result: Result<(), Fail>,
}

fn replay_input(v: &serde_json::Value, base: &std::path::Path) -> Result<(), Fail> {
    let Some(h) = History::from_json(v) else { return Err(Fail::new("bad-replay", "replay input is not a history")) };
    run_history(base, &h, Prop::C19).map(|_| ())
}

pub fn run(args: &Args) {
    let report = Report::new(
        args,
        "fault_enumeration",
        "per base case (initial directory, S0, edit, later edits): every operation index k of the interrupted \
         compile's write plan (sampled above 64 operations) x fault flavours (error before the operation / \
         truncated write, recovery in the same session; process killed, recovery by a fresh CompilerState; \
         and for the first, middle and last k: truncated write + process killed, recovery by a fresh CLI process) x 2 plan kinds (diff plan of a later compile, rewrite-everything plan of a first \
         compile); non-trivial = the interrupted plan had >= 2 operations, the fault was not at k = 0, and the \
         fault fired; distinct by the whole scenario (sources of every step, modes, fault)",
    );
    report.engine("stateful (inproc + subproc), fault injection through isograph_compiler::verif::set_fault_plan");
    report.assumption("the order of operations inside a plan follows HashMap iteration order and differs between runs; every index k of every plan is exercised, which prefix of operations that is varies");
    report.assumption("a fault is an io::Error-like failure of one operation (optionally after writing half of the file); the operations before it took effect, the ones after it did not run");
    let base_dir = vcore::scratch_base();

    if let Some(path) = &args.replay {
        let v = vcore::read_replay(path);
        report.case(Some(&v["input"].to_string()), &["replay"]);
        report.case(Some("replay-marker"), &[]);
        if let Err(f) = replay_input(&v["input"], &base_dir) {
            report.violation("replay", &f, v["input"].clone());
        }
        report.finish();
    }
    report.run_regressions(|v| replay_input(v, &base_dir));

    let n_bases = args.tier.pick(16, 640);
    let bases = vcore::generate_values(vcore::derive_seed(report.seed, "c19-bases", 0), n_bases, &base_seed());
    let workers = vcore::num_workers();
    let mut all: Vec<ScenarioResult> = vec![];
    let mut plan_lengths: Vec<(usize, usize, usize)> = vec![];
    std::thread::scope(|scope| {
        let handles: Vec<_> = (0..workers)
            .map(|w| {
                let bases = &bases;
                let base_dir = &base_dir;
                let report = &report;
                scope.spawn(move || {
                    let mut out: Vec<ScenarioResult> = vec![];
                    let mut lens = vec![];
                    'bases: for (bi, b) in bases.iter().enumerate() {
                        for (shi, shape) in [Shape::LaterCompile, Shape::FirstCompile].into_iter().enumerate() {
                            if (bi * 2 + shi) % workers != w {
                                continue;
                            }
                            let mut si = shi * 1_000_000;
                            // dry run: learn the length of the plan that will be interrupted
                            let (dry, _) = scenario(b, shape, None);
                            let n = match run_history(base_dir, &dry, Prop::C19) {
                                Ok(st) if st.ok == 2 => st.operations_seen.last().copied().unwrap_or(0),
                                // S0 or the edited program does not compile (or the write fails for
                                // C18's reasons): nothing to interrupt
                                _ => {
                                    lens.push((bi, shape as usize, usize::MAX));
                                    continue;
                                }
                            };
                            lens.push((bi, shape as usize, n));
                            for k in sample_ks(n) {
                                for v in VARIANTS {
                                    // a CLI process costs as much as dozens of in-process compiles:
                                    // recovery by CLI is run for the first, middle and last k only
                                    if *v == Variant::TruncatedKilledFreshCli && !(k == 0 || k + 1 == n || k == n / 2) {
                                        continue;
                                    }
                                    let (h, mut labels) = scenario(b, shape, Some((k, *v)));
                                    let r = run_history(base_dir, &h, Prop::C19);
                                    let mut l: Vec<String> = labels.drain(..).map(|s| s.to_string()).collect();
                                    l.push(v.label().to_string());
                                    l.push(match shape {
                                        Shape::LaterCompile => "interrupted:later-compile(diff plan)".to_string(),
                                        Shape::FirstCompile => "interrupted:first-compile(rewrite plan)".to_string(),
                                    });
                                    l.push(if k == 0 { "k=0" } else if k + 1 == n { "k=last" } else { "0<k<last" }.to_string());
                                    let mut fired = false;
                                    let mut recovered = false;
                                    if let Ok(st) = &r {
                                        fired = st.faulted > 0;
                                        recovered = st.ok_after_fault > 0;
                                        l.extend(st.labels.iter().cloned());
                                        if !fired {
                                            l.push("fault-did-not-fire".to_string());
                                        }
                                        if fired && !recovered {
                                            l.push("no-successful-compile-after-fault".to_string());
                                        }
                                    }
                                    let failed = matches!(&r, Err(f) if !report.is_known(&f.signature));
                                    out.push(ScenarioResult {
                                        order: (bi, si),
                                        key: vcore::hash_of(&h),
                                        nontrivial: n >= 2 && k >= 1 && fired && recovered,
                                        labels: l,
                                        history: h,
                                        result: r.map(|_| ()),
                                    });
                                    si += 1;
                                    if failed {
                                        break 'bases;
                                    }
                                }
                            }
                        }
                    }
                    (out, lens)
                })
            })
            .collect();
        for h in handles {
            match h.join() {
                Ok((out, lens)) => {
                    all.extend(out);
                    plan_lengths.extend(lens);
                }
                Err(_) => vcore::inconclusive("a C19 worker thread panicked"),
            }
        }
    });
    all.sort_by_key(|s| s.order);
    plan_lengths.sort();
    let samples = Samples::new(2);
    let mut first_fail: Option<&ScenarioResult> = None;
    for s in &all {
        let r = report.tolerate(s.result.clone());
        let l: Vec<&str> = s.labels.iter().map(|x| x.as_str()).collect();
        report.case(if s.nontrivial { Some(&s.key) } else { None }, &l);
        samples.offer(if s.nontrivial { "nontrivial-scenario" } else { "other-scenario" }, s.key, || crate::history_sample(&s.history));
        if r.is_err() && first_fail.is_none() {
            first_fail = Some(s);
            break;
        }
    }
    let usable: Vec<usize> = plan_lengths.iter().filter(|l| l.2 != usize::MAX).map(|l| l.2).collect();
    report.extra(
        "plans",
        serde_json::json!({
            "base_cases": n_bases,
            "plans_enumerated": usable.len(),
            "plans_skipped(base does not compile)": plan_lengths.len() - usable.len(),
            "plan_length_min": usable.iter().min(),
            "plan_length_max": usable.iter().max(),
            "plan_length_sum": usable.iter().sum::<usize>(),
            "plans_with_more_than_64_operations(sampled)": usable.iter().filter(|n| **n > 64).count(),
        }),
    );
    if let Some(s) = first_fail {
        if let Err(f) = &s.result {
            report.violation("c19-scenario", f, s.history.to_json("C19"));
        }
    }
    samples.emit(&report);
    report.finish();
}
