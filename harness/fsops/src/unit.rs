//! C18, unit level: sequences of artifact sets (G-FS) through `get_file_system_operations` +
//! `apply_file_system_operations` on a real temporary directory with arbitrary initial contents.
use crate::world::{diff_files, mismatch_class, snapshot, write_junk, Files, Junk, JUNK_DIRS, JUNK_FILES};
use artifact_content::FileSystemState;
use common_lang_types::{ArtifactPath, ArtifactPathAndContent, EntityNameAndSelectableName, FileSystemOperation};
use intern::string_key::Intern;
use isograph_compiler::verif::{apply_file_system_operations, get_file_system_operations, set_fault_plan};
use proptest::prelude::*;
use serde_json::{json, Value};
use std::collections::BTreeMap;
use std::path::Path;
use std::sync::atomic::{AtomicU64, Ordering};
use vcore::Fail;

pub const ENTITIES: &[&str] = &["Query", "User", "Item", "Mutation"];
pub const SELECTABLES: &[&str] = &["Home", "Card", "__refetch", "name", "HomeRoute"];
pub const NESTED_FILES: &[&str] = &[
    "entrypoint.ts",
    "resolver_reader.ts",
    "param_type.ts",
    "output_type.ts",
    "query_text.ts",
    "normalization_ast.ts",
    "__refetch__0.ts",
    "refetch_reader.ts",
];
pub const ROOT_FILES: &[&str] = &["iso.ts", "tsconfig.json", "persisted_documents.json"];
pub const CONTENTS: &[&str] = &[
    "",
    "a",
    "export default 1;\n",
    "// \u{fc}\u{1F600}\nexport const x = '\u{2028}';\n",
    "export default 2;\n",
    "{\n  \"compilerOptions\": {}\n}\n",
];

/// (entity, selectable) or root; file name
pub type Key = (Option<(String, String)>, String);
pub type ArtSet = BTreeMap<Key, String>;

#[derive(Clone, Debug, PartialEq, Eq, Hash)]
pub enum SetEdit {
    Put { nested: bool, e: u16, s: u16, f: u16, c: u16 },
    Remove(u16),
    Change(u16, u16),
    RemoveEntity(u16),
    RemoveSelectable(u16),
    RemoveAllNested,
    RemoveAllRoot,
    Clear,
    Nothing,
}

#[derive(Clone, Debug, PartialEq, Eq, Hash)]
pub struct UnitStepSeed {
    pub edits: Vec<SetEdit>,
    /// a new session starts here (the in-memory state is gone; the directory is what it is)
    pub new_session: bool,
}

#[derive(Clone, Debug, PartialEq, Eq, Hash)]
pub enum UnitInit {
    Missing,
    Empty,
    Junk(Vec<Junk>),
    /// an artifact set written earlier (by another session), plus junk
    Previous(Vec<SetEdit>, Vec<Junk>),
}

#[derive(Clone, Debug, PartialEq, Eq, Hash)]
pub struct UnitSeed {
    /// the first set starts from the two root files every real compile emits
    pub base_roots: bool,
    pub init: UnitInit,
    pub first: Vec<SetEdit>,
    pub steps: Vec<UnitStepSeed>,
}

fn content(c: u16, big: bool) -> String {
    let base = CONTENTS[vcore::pick_index(c, CONTENTS.len())];
    if big && c % 7 == 0 {
        // larger than one page / one write buffer
        base.repeat(1 + 9000 / base.len().max(1))
    } else {
        base.to_string()
    }
}

pub fn set_edit() -> impl Strategy<Value = SetEdit> {
    prop_oneof![
        12 => (prop::bool::weighted(0.8), any::<u16>(), any::<u16>(), any::<u16>(), any::<u16>())
            .prop_map(|(nested, e, s, f, c)| SetEdit::Put { nested, e, s, f, c }),
        3 => any::<u16>().prop_map(SetEdit::Remove),
        3 => (any::<u16>(), any::<u16>()).prop_map(|(a, b)| SetEdit::Change(a, b)),
        2 => any::<u16>().prop_map(SetEdit::RemoveEntity),
        2 => any::<u16>().prop_map(SetEdit::RemoveSelectable),
        1 => Just(SetEdit::RemoveAllNested),
        1 => Just(SetEdit::RemoveAllRoot),
        1 => prop_oneof![4 => Just(SetEdit::Nothing), 1 => Just(SetEdit::Clear)],
    ]
}

pub fn junk() -> impl Strategy<Value = Vec<Junk>> {
    let entry = prop_oneof![
        3 => (prop::sample::select(JUNK_FILES.to_vec()), prop::sample::select(CONTENTS.to_vec()))
            .prop_map(|(p, c)| Junk::File(p.to_string(), c.as_bytes().to_vec())),
        1 => prop::sample::select(JUNK_DIRS.to_vec()).prop_map(|p| Junk::Dir(p.to_string())),
    ];
    prop::collection::vec(entry, 1..6)
}

pub fn unit_seed() -> impl Strategy<Value = UnitSeed> {
    let init = prop_oneof![
        1 => Just(UnitInit::Missing),
        2 => Just(UnitInit::Empty),
        3 => junk().prop_map(UnitInit::Junk),
        3 => (prop::collection::vec(set_edit(), 0..8), prop_oneof![Just(vec![]), junk()])
            .prop_map(|(e, j)| UnitInit::Previous(e, j)),
    ];
    let step = (prop::collection::vec(set_edit(), 0..4), prop::bool::weighted(0.15))
        .prop_map(|(edits, new_session)| UnitStepSeed { edits, new_session });
    (prop::bool::weighted(0.8), init, prop::collection::vec(set_edit(), 0..10), prop::collection::vec(step, 0..5))
        .prop_map(|(base_roots, init, first, steps)| UnitSeed { base_roots, init, first, steps })
}

pub fn apply_set_edits(set: &mut ArtSet, edits: &[SetEdit]) {
    for e in edits {
        match e {
            SetEdit::Put { nested, e, s, f, c } => {
                let key: Key = if *nested {
                    (
                        Some((
                            ENTITIES[vcore::pick_index(*e, ENTITIES.len())].to_string(),
                            SELECTABLES[vcore::pick_index(*s, SELECTABLES.len())].to_string(),
                        )),
                        NESTED_FILES[vcore::pick_index(*f, NESTED_FILES.len())].to_string(),
                    )
                } else {
                    (None, ROOT_FILES[vcore::pick_index(*f, ROOT_FILES.len())].to_string())
                };
                set.insert(key, content(*c, true));
            }
            SetEdit::Remove(i) => {
                if !set.is_empty() {
                    let k = set.keys().nth(vcore::pick_index(*i, set.len())).cloned().unwrap();
                    set.remove(&k);
                }
            }
            SetEdit::Change(i, c) => {
                if !set.is_empty() {
                    let k = set.keys().nth(vcore::pick_index(*i, set.len())).cloned().unwrap();
                    let new = content(*c, false);
                    let v = set.get_mut(&k).unwrap();
                    *v = if *v == new { format!("{new}// changed\n") } else { new };
                }
            }
            SetEdit::RemoveEntity(i) => {
                let ents: Vec<String> =
                    set.keys().filter_map(|k| k.0.as_ref().map(|x| x.0.clone())).collect::<std::collections::BTreeSet<_>>().into_iter().collect();
                if !ents.is_empty() {
                    let e = ents[vcore::pick_index(*i, ents.len())].clone();
                    set.retain(|k, _| k.0.as_ref().map(|x| x.0 != e).unwrap_or(true));
                }
            }
            SetEdit::RemoveSelectable(i) => {
                let sels: Vec<(String, String)> =
                    set.keys().filter_map(|k| k.0.clone()).collect::<std::collections::BTreeSet<_>>().into_iter().collect();
                if !sels.is_empty() {
                    let s = sels[vcore::pick_index(*i, sels.len())].clone();
                    set.retain(|k, _| k.0.as_ref() != Some(&s));
                }
            }
            SetEdit::RemoveAllNested => set.retain(|k, _| k.0.is_none()),
            SetEdit::RemoveAllRoot => set.retain(|k, _| k.0.is_some()),
            SetEdit::Clear => set.clear(),
            SetEdit::Nothing => {}
        }
    }
}

pub fn rel_of(k: &Key) -> String {
    match &k.0 {
        Some((e, s)) => format!("{e}/{s}/{}", k.1),
        None => k.1.clone(),
    }
}

fn set_files(set: &ArtSet) -> Files {
    set.iter().map(|(k, v)| (rel_of(k), v.as_bytes().to_vec())).collect()
}

// ---- concrete (replayable) form --------------------------------------------------------------

#[derive(Clone, Debug, PartialEq, Eq, Hash)]
pub struct UnitStep {
    pub new_session: bool,
    pub artifacts: ArtSet,
}

#[derive(Clone, Debug, PartialEq, Eq, Hash)]
pub struct UnitCase {
    /// files / directories present before the first compile
    pub init_missing: bool,
    pub init: Vec<Junk>,
    pub steps: Vec<UnitStep>,
}

pub fn concretise(seed: &UnitSeed) -> (UnitCase, Vec<&'static str>) {
    let mut labels = vec![];
    let mut init = vec![];
    let mut init_missing = false;
    match &seed.init {
        UnitInit::Missing => {
            init_missing = true;
            labels.push("init:missing")
        }
        UnitInit::Empty => labels.push("init:empty"),
        UnitInit::Junk(j) => {
            init = j.clone();
            labels.push("init:junk")
        }
        UnitInit::Previous(edits, j) => {
            let mut prev = ArtSet::new();
            apply_set_edits(&mut prev, edits);
            for (k, v) in &prev {
                init.push(Junk::File(rel_of(k), v.as_bytes().to_vec()));
            }
            init.extend(j.iter().cloned());
            labels.push(if j.is_empty() { "init:previous-set" } else { "init:previous-set+junk" });
        }
    }
    let mut cur = ArtSet::new();
    if seed.base_roots {
        cur.insert((None, "iso.ts".to_string()), CONTENTS[2].to_string());
        cur.insert((None, "tsconfig.json".to_string()), CONTENTS[5].to_string());
    }
    apply_set_edits(&mut cur, &seed.first);
    let mut steps = vec![UnitStep { new_session: true, artifacts: cur.clone() }];
    for s in &seed.steps {
        apply_set_edits(&mut cur, &s.edits);
        steps.push(UnitStep { new_session: s.new_session, artifacts: cur.clone() });
    }
    (UnitCase { init_missing, init, steps }, labels)
}

static COUNTER: AtomicU64 = AtomicU64::new(0);

#[derive(Default, Debug)]
pub struct UnitStats {
    pub root_only_sets: usize,
    pub empty_sets: usize,
    pub removals: usize,
    pub first_compiles: usize,
    pub later_compiles: usize,
    pub operations: usize,
    pub leftover_empty_dirs: usize,
    pub nontrivial: bool,
}

fn to_artifacts(set: &ArtSet, rotate: usize) -> Vec<ArtifactPathAndContent> {
    let mut v: Vec<ArtifactPathAndContent> = set
        .iter()
        .map(|(k, c)| ArtifactPathAndContent {
            artifact_path: ArtifactPath {
                type_and_field: k.0.as_ref().map(|(e, s)| EntityNameAndSelectableName {
                    parent_entity_name: e.as_str().intern().into(),
                    selectable_name: s.as_str().intern().into(),
                }),
                file_name: k.1.as_str().intern().into(),
            },
            file_content: c.clone().into(),
        })
        .collect();
    // the position of an artifact in the vector is arbitrary for the compiler: vary it
    if !v.is_empty() {
        let r = rotate % v.len();
        v.rotate_left(r);
    }
    v
}

pub fn run_unit(base: &Path, case: &UnitCase) -> Result<UnitStats, Fail> {
    let n = COUNTER.fetch_add(1, Ordering::SeqCst);
    let root = base.join(format!("u{n}"));
    let _ = std::fs::remove_dir_all(&root);
    std::fs::create_dir_all(&root).expect("scratch");
    let dir = root.join("__isograph");
    let r = run_unit_in(&dir, case);
    let _ = std::fs::remove_dir_all(&root);
    r
}

fn run_unit_in(dir: &Path, case: &UnitCase) -> Result<UnitStats, Fail> {
    let mut st = UnitStats::default();
    if !case.init_missing {
        std::fs::create_dir_all(dir).expect("artifact dir");
    }
    if !case.init.is_empty() {
        write_junk(dir, &case.init);
        st.nontrivial = true;
    }
    set_fault_plan(None);
    let mut state: Option<FileSystemState> = None;
    let mut prev: Option<&ArtSet> = None;
    for (i, step) in case.steps.iter().enumerate() {
        if step.new_session {
            state = None;
            prev = None;
        }
        let first = state.is_none();
        let set = &step.artifacts;
        if set.is_empty() {
            st.empty_sets += 1;
        } else if set.keys().all(|k| k.0.is_none()) {
            st.root_only_sets += 1;
            st.nontrivial = true;
        }
        if let Some(p) = prev {
            if p.keys().any(|k| !set.contains_key(k)) {
                st.removals += 1;
                st.nontrivial = true;
            }
        }
        let artifacts = to_artifacts(set, i * 3 + 1);
        let ops = match vcore::catch_panic(|| get_file_system_operations(&artifacts, dir, &mut state)) {
            Ok(o) => o,
            Err(p) => return Err(Fail::new("plan-panic", format!("get_file_system_operations panicked at step {i}: {p}"))),
        };
        st.operations += ops.len();
        if first {
            st.first_compiles += 1;
        } else {
            st.later_compiles += 1;
            // later compiles write only artifacts whose content changed
            let p = prev.expect("previous set of the session");
            let prev_files = set_files(p);
            for op in &ops {
                if let FileSystemOperation::WriteFile(path, idx) = op {
                    let rel = path.strip_prefix(dir).map(|r| r.to_string_lossy().to_string()).unwrap_or_else(|_| path.display().to_string());
                    let new_content = artifacts.get(idx.idx).map(|a| a.file_content.as_bytes().to_vec());
                    if let (Some(old), Some(new)) = (prev_files.get(&rel), new_content) {
                        if *old == new {
                            return Err(Fail::new(
                                "rewrote-unchanged-artifact",
                                format!("step {i}: the plan of a later compile writes {rel}, whose content did not change\nplan: {ops:?}"),
                            ));
                        }
                    }
                }
            }
        }
        match vcore::catch_panic(|| apply_file_system_operations(&ops, &artifacts)) {
            Ok(Ok(_)) => {}
            Ok(Err(d)) => {
                let text = format!("{d}");
                let what = ["delete directory", "create directory", "write contents of file", "delete file"]
                    .iter()
                    .find(|w| text.contains(*w))
                    .copied()
                    .unwrap_or("other");
                return Err(Fail::new(
                    format!("plan-not-applicable:{}", what.replace(' ', "-")),
                    format!(
                        "step {i} ({}): applying the compiler's own plan failed on a writable directory nobody else touched:\n{text}\nplan: {ops:?}",
                        if first { "first compile of a session" } else { "later compile" }
                    ),
                ));
            }
            Err(p) => return Err(Fail::new("apply-panic", format!("apply_file_system_operations panicked at step {i}: {p}"))),
        }
        let view = snapshot(dir);
        let expected = set_files(set);
        if view.files != expected {
            let class = mismatch_class(&expected, &view.files);
            return Err(Fail::new(
                format!("directory-differs:{class}:{}", if first { "first-compile-of-session" } else { "same-session" }),
                format!(
                    "step {i}: after applying the plan the directory differs from the artifact set:\n{}\nplan: {ops:?}",
                    diff_files(&expected, &view.files, 12).join("\n")
                ),
            ));
        }
        st.leftover_empty_dirs += view.empty_dirs.len();
        prev = Some(set);
    }
    Ok(st)
}

// ---- replay ----------------------------------------------------------------------------------

pub fn case_to_json(c: &UnitCase) -> Value {
    let init: Vec<Value> = c
        .init
        .iter()
        .map(|j| match j {
            Junk::File(p, b) => json!(["file", p, String::from_utf8_lossy(b)]),
            Junk::Dir(p) => json!(["dir", p]),
        })
        .collect();
    let steps: Vec<Value> = c
        .steps
        .iter()
        .map(|s| {
            let arts: Vec<Value> = s
                .artifacts
                .iter()
                .map(|(k, v)| json!({"entity": k.0.as_ref().map(|x| x.0.clone()), "selectable": k.0.as_ref().map(|x| x.1.clone()), "file": k.1, "content": v}))
                .collect();
            json!({"new_session": s.new_session, "artifacts": arts})
        })
        .collect();
    json!({"kind": "unit", "init_missing": c.init_missing, "init": init, "steps": steps})
}

pub fn case_from_json(v: &Value) -> Option<UnitCase> {
    let init = v["init"]
        .as_array()?
        .iter()
        .filter_map(|e| match e[0].as_str()? {
            "file" => Some(Junk::File(e[1].as_str()?.to_string(), e[2].as_str().unwrap_or("").as_bytes().to_vec())),
            _ => Some(Junk::Dir(e[1].as_str()?.to_string())),
        })
        .collect();
    let mut steps = vec![];
    for s in v["steps"].as_array()? {
        let mut set = ArtSet::new();
        for a in s["artifacts"].as_array()? {
            let nest = match (a["entity"].as_str(), a["selectable"].as_str()) {
                (Some(e), Some(s)) => Some((e.to_string(), s.to_string())),
                _ => None,
            };
            set.insert((nest, a["file"].as_str()?.to_string()), a["content"].as_str().unwrap_or("").to_string());
        }
        steps.push(UnitStep { new_session: s["new_session"].as_bool().unwrap_or(false), artifacts: set });
    }
    Some(UnitCase { init_missing: v["init_missing"].as_bool().unwrap_or(false), init, steps })
}
