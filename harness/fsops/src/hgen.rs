//! History generators for C17 / C18 / C19 (proptest strategies over seeds; construction only).
use crate::history::{History, Init, StepSpec};
use crate::project::{
    apply_edit, build_project, error_edit, project_seed, valid_edit, EditOp, Project, ProjectSeed,
};
use crate::unit::junk;
use crate::world::{Junk, Mode};
use proptest::prelude::*;

#[derive(Clone, Debug, PartialEq, Eq, Hash)]
pub enum InitSeed {
    Missing,
    Empty,
    Junk(Vec<Junk>),
    Previous(ProjectSeed, Vec<Junk>),
}

#[derive(Clone, Debug, PartialEq, Eq, Hash)]
pub struct StepSeed {
    pub edits: Vec<EditOp>,
    pub mode: Mode,
}

#[derive(Clone, Debug, PartialEq, Eq, Hash)]
pub struct HistSeed {
    pub init: InitSeed,
    pub p0: ProjectSeed,
    pub first_cli: bool,
    pub steps: Vec<StepSeed>,
}

pub fn init_seed() -> impl Strategy<Value = InitSeed> {
    prop_oneof![
        1 => Just(InitSeed::Missing),
        2 => Just(InitSeed::Empty),
        3 => junk().prop_map(InitSeed::Junk),
        3 => (project_seed(4), prop_oneof![2 => Just(vec![]), 1 => junk()]).prop_map(|(p, j)| InitSeed::Previous(p, j)),
    ]
}

pub fn mode(same: u32, fresh: u32, cli: u32) -> impl Strategy<Value = Mode> {
    prop_oneof![
        same => Just(Mode::SameSession),
        fresh => Just(Mode::FreshState),
        cli => Just(Mode::FreshCli),
    ]
}

/// P0 for histories: mostly with client fields, sometimes without any.
pub fn p0_seed() -> impl Strategy<Value = ProjectSeed> {
    prop_oneof![
        1 => project_seed(0),
        9 => project_seed(5),
    ]
}

/// C18: valid edits, now and then an invalid step followed by its repair.
pub fn c18_hist_seed() -> impl Strategy<Value = HistSeed> {
    let step = prop_oneof![
        9 => (prop::collection::vec(valid_edit(), 1..4), mode(7, 2, 1)).prop_map(|(edits, mode)| StepSeed { edits, mode }),
        1 => (error_edit(), mode(7, 2, 1)).prop_map(|(e, mode)| StepSeed { edits: vec![e], mode }),
        1 => mode(7, 2, 1).prop_map(|mode| StepSeed { edits: vec![EditOp::FixErrors], mode }),
    ];
    (init_seed(), p0_seed(), prop::bool::weighted(0.1), prop::collection::vec(step, 0..6))
        .prop_map(|(init, p0, first_cli, steps)| HistSeed { init, p0, first_cli, steps })
}

/// C17: P0, then >= 1 invalid programs, optionally repaired at the end.
pub fn c17_hist_seed() -> impl Strategy<Value = HistSeed> {
    let error_step = (prop::collection::vec(valid_edit(), 0..3), error_edit(), mode(6, 3, 1)).prop_map(|(mut edits, e, mode)| {
        edits.push(e);
        StepSeed { edits, mode }
    });
    let more = prop_oneof![
        4 => (prop::collection::vec(valid_edit(), 0..3), error_edit(), mode(6, 3, 1)).prop_map(|(mut edits, e, mode)| {
            edits.push(e);
            StepSeed { edits, mode }
        }),
        // keep editing while the program stays broken
        3 => (prop::collection::vec(valid_edit(), 1..3), mode(6, 3, 1)).prop_map(|(edits, mode)| StepSeed { edits, mode }),
        2 => (prop::collection::vec(valid_edit(), 0..2), mode(6, 3, 1)).prop_map(|(mut edits, mode)| {
            edits.insert(0, EditOp::FixErrors);
            StepSeed { edits, mode }
        }),
    ];
    let init = prop_oneof![
        6 => Just(InitSeed::Empty),
        1 => Just(InitSeed::Missing),
        1 => junk().prop_map(InitSeed::Junk),
    ];
    (init, project_seed(5), prop::bool::weighted(0.1), error_step, prop::collection::vec(more, 0..4)).prop_map(
        |(init, p0, first_cli, first, more)| {
            let mut steps = vec![first];
            steps.extend(more);
            HistSeed { init, p0, first_cli, steps }
        },
    )
}

pub struct Built {
    pub history: History,
    pub projects: Vec<Project>,
    pub labels: Vec<&'static str>,
}

impl Built {
    /// Generator self-check: does the compiler agree with the model about validity? (labels only;
    /// a low agreement rate means the generator needs fixing, never a verdict)
    pub fn agreement_labels(&self, outcomes: &[String]) -> Vec<String> {
        self.projects
            .iter()
            .zip(outcomes.iter())
            .filter(|(_, o)| *o == "ok" || *o == "diagnostics")
            .map(|(p, o)| format!("model-{}:compiler-{o}", if p.model_says_invalid() { "invalid" } else { "valid" }))
            .collect()
    }
}

pub fn build_init(init: &InitSeed) -> Init {
    match init {
        InitSeed::Missing => Init::Missing,
        InitSeed::Empty => Init::Empty,
        InitSeed::Junk(j) => Init::Junk(j.clone()),
        InitSeed::Previous(p, j) => Init::Previous(build_project(p).printed(), j.clone()),
    }
}

pub fn build_history(seed: &HistSeed) -> Built {
    let mut labels = vec![];
    let mut p = build_project(&seed.p0);
    let mut projects = vec![p.clone()];
    let mut steps = vec![StepSpec {
        project: p.printed(),
        mode: if seed.first_cli { Mode::FreshCli } else { Mode::FreshState },
        fault: None,
        kill_after: false,
    }];
    if p.client_field_count() == 0 {
        labels.push("p0:no-client-fields");
    }
    for s in &seed.steps {
        for e in &s.edits {
            if apply_edit(&mut p, e) {
                labels.push(e.label());
            } else {
                labels.push("edit:no-op");
            }
        }
        if p.client_field_count() == 0 {
            labels.push("step:no-client-fields");
        }
        labels.push(if p.model_says_invalid() { "step:model-invalid" } else { "step:model-valid" });
        steps.push(StepSpec { project: p.printed(), mode: s.mode, fault: None, kill_after: false });
        projects.push(p.clone());
    }
    Built { history: History { init: build_init(&seed.init), steps }, projects, labels }
}
