//! C18 — after a successful compile the artifact directory equals the generated artifacts.
//!
//! (a) unit level: G-FS sequences of artifact sets through `get_file_system_operations` +
//!     `apply_file_system_operations` on a real directory with arbitrary initial contents.
//!     Oracle: the regular files under the directory and their bytes equal the artifact set
//!     (computed by the harness from the set itself); the compiler's own plan must be applicable
//!     on a writable directory nobody else touches; in later compiles of a session every
//!     `WriteFile` targets a new or changed artifact.
//! (b) end to end: edit scripts over generated projects through a live `CompilerState`
//!     (`update_sources` + `compile`), fresh `CompilerState`s and fresh CLI processes.
//!     Oracle: directory == artifacts generated for the same sources
//!     (`get_artifact_path_and_content` on the session's database, or on a brand-new database for
//!     CLI compiles); later compiles of a session leave files with unchanged content unwritten
//!     (observed through modification times).
use crate::hgen::{build_history, c18_hist_seed};
use crate::history::{run_history, History, Prop};
use crate::unit::{case_from_json, case_to_json, concretise, run_unit, unit_seed};
use crate::Samples;
use serde_json::Value;
use vcore::{Args, Fail, Report};

fn replay_input(v: &Value, base: &std::path::Path) -> Result<(), Fail> {
    match v["kind"].as_str() {
        Some("unit") => {
            let Some(c) = case_from_json(v) else { return Err(Fail::new("bad-replay", "replay input is not a unit case")) };
            run_unit(base, &c).map(|_| ())
        }
        _ => {
            let Some(h) = History::from_json(v) else { return Err(Fail::new("bad-replay", "replay input is not a history")) };
            run_history(base, &h, Prop::C18).map(|_| ())
        }
    }
}

pub fn run(args: &Args) {
    let report = Report::new(
        args,
        "exploration",
        "(a) sequences of 1-6 artifact sets (root files, Type/field/file files, possibly none of either) related \
         by add/remove/change of file, selectable, entity, applied to a directory that is missing / empty / holds \
         a previous set / holds junk files and directories (also files where directories belong and vice versa), \
         with new sessions in between; (b) histories of 1-6 compiles of generated projects edited by edit scripts, \
         through live sessions, fresh sessions and CLI processes, from the same kinds of initial directories. \
         non-trivial = some set/compile has no nested artifact, or removes an entity/selectable/file present \
         before, or the first compile starts from a non-empty directory; distinct by the whole case",
    );
    report.engine("pbt (unit)");
    report.engine("stateful (inproc + subproc)");
    report.assumption("artifact path = <entity>/<selectable>/<file name> or <file name> under the artifact directory (ArtifactPath)");
    report.assumption("initial directory contents are readable and writable (read-only leftovers excluded)");
    report.assumption("file names come from the compiler's own vocabulary; entity/selectable names are GraphQL names");
    let base = vcore::scratch_base();

    if let Some(path) = &args.replay {
        let v = vcore::read_replay(path);
        report.case(Some(&v["input"].to_string()), &["replay"]);
        report.case(Some("replay-marker"), &[]);
        if let Err(f) = replay_input(&v["input"], &base) {
            report.violation("replay", &f, v["input"].clone());
        }
        report.finish();
    }
    report.run_regressions(|v| replay_input(v, &base));

    // (a) unit level
    let samples = Samples::new(2);
    let cases = args.tier.pick(6000, 240000);
    let result = crate::run_prop_parallel_budget(&report, "c18-unit", cases, 500, unit_seed, |seed| {
        let (case, init_labels) = concretise(seed);
        let r = run_unit(&base, &case);
        let key = vcore::hash_of(&case);
        match &r {
            Ok(st) => {
                let mut labels: Vec<&str> = vec!["unit"];
                labels.extend(init_labels.iter());
                if st.root_only_sets > 0 {
                    labels.push("unit:set-without-nested-artifact");
                }
                if st.empty_sets > 0 {
                    labels.push("unit:empty-set");
                }
                if st.removals > 0 {
                    labels.push("unit:removes-artifacts");
                }
                if st.leftover_empty_dirs > 0 {
                    labels.push("left-over-empty-directories");
                }
                if case.steps.iter().skip(1).any(|s| s.new_session) {
                    labels.push("unit:new-session-mid-sequence");
                }
                report.case(if st.nontrivial { Some(&key) } else { None }, &labels);
                report.label_n("unit:first-compiles", st.first_compiles as u64);
                report.label_n("unit:later-compiles", st.later_compiles as u64);
                report.label_n("unit:operations-applied", st.operations as u64);
                samples.offer(if st.nontrivial { "unit-nontrivial" } else { "unit-other" }, key, || case_to_json(&case));
            }
            Err(_) => report.case(Some(&key), &["failing-case"]),
        }
        r.map(|_| ())
    });
    if let Some((seed, fail)) = result {
        let (case, _) = concretise(&seed);
        report.violation("c18-unit", &fail, case_to_json(&case));
    }
    report.unfreeze();

    // (b) end to end
    let cases = args.tier.pick(480, 16000);
    let result = crate::run_prop_parallel_budget(&report, "c18-histories", cases, 100, c18_hist_seed, |seed| {
        let built = build_history(seed);
        let r = run_history(&base, &built.history, Prop::C18);
        let key = vcore::hash_of(&built.history);
        match &r {
            Ok(st) => {
                let mut labels: Vec<String> = vec!["e2e".to_string()];
                labels.extend(built.labels.iter().map(|s| s.to_string()));
                labels.extend(st.labels.iter().cloned());
                for (s, o) in built.history.steps.iter().zip(st.outcomes.iter()) {
                    labels.push(format!("compile:{}:{o}", crate::history::mode_name(s.mode)));
                }
                labels.extend(built.agreement_labels(&st.outcomes));
                let from_non_empty = !matches!(built.history.init, crate::history::Init::Missing | crate::history::Init::Empty);
                let nontrivial = st.ok > 0 && (st.ok_root_only > 0 || st.ok_removed_something > 0 || from_non_empty);
                let l: Vec<&str> = labels.iter().map(|s| s.as_str()).collect();
                report.case(if nontrivial { Some(&key) } else { None }, &l);
                report.label_n("e2e:successful-compiles-checked", st.ok as u64);
                report.label_n("e2e:successful-compiles-root-only", st.ok_root_only as u64);
                report.label_n("e2e:successful-compiles-removing-artifacts", st.ok_removed_something as u64);
                report.label_n("e2e:minimal-write-checks", st.minimality_checked as u64);
                samples.offer(if nontrivial { "e2e-nontrivial" } else { "e2e-other" }, key, || crate::history_sample(&built.history));
            }
            Err(_) => report.case(Some(&key), &["failing-case"]),
        }
        r.map(|_| ())
    });
    if let Some((seed, fail)) = result {
        let built = build_history(&seed);
        report.violation("c18-histories", &fail, built.history.to_json("C18"));
    }
    report.unfreeze();
    samples.emit(&report);
    report.finish();
}
