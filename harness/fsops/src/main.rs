//! C17 (failed compile leaves the artifact directory untouched), C18 (after a successful compile
//! the directory equals the artifacts), C19 (an interrupted write is repaired by the next
//! successful compile).
use serde_json::Value;
use std::collections::BTreeMap;
use std::sync::Mutex;
use vcore::Report;

mod c17;
mod c18;
mod c19;
mod hgen;
mod history;
mod project;
mod unit;
mod world;

fn main() {
    let args = vcore::parse_args();
    if !vcore::cli_path().is_file() {
        vcore::inconclusive(&format!("the CLI binary {} is missing", vcore::cli_path().display()));
    }
    match args.property.as_str() {
        "C17" => c17::run(&args),
        "C18" => c18::run(&args),
        "C19" => c19::run(&args),
        "BENCH" => bench(),
        other => vcore::inconclusive(&format!("fsops: unknown property {other}")),
    }
}

/// Deterministic sample selection under parallel workers: per kind keep the `max` candidates with
/// the smallest case hash, emit them at the end.
pub struct Samples {
    max: usize,
    inner: Mutex<BTreeMap<String, BTreeMap<u64, Value>>>,
}

impl Samples {
    pub fn new(max: usize) -> Samples {
        Samples { max, inner: Mutex::new(BTreeMap::new()) }
    }
    pub fn offer(&self, kind: &str, hash: u64, v: impl FnOnce() -> Value) {
        let mut g = self.inner.lock().unwrap();
        let m = g.entry(kind.to_string()).or_default();
        if m.len() < self.max || m.keys().next_back().is_some_and(|k| hash < *k) {
            m.insert(hash, v());
            while m.len() > self.max {
                let last = *m.keys().next_back().unwrap();
                m.remove(&last);
            }
        }
    }
    pub fn emit(&self, report: &Report) {
        let g = self.inner.lock().unwrap();
        for (kind, m) in g.iter() {
            for v in m.values() {
                let v = v.clone();
                report.sample(kind, self.max, move || v);
            }
        }
    }
}

/// A compact description of a history for the evidence file (sources of the last step only).
pub fn history_sample(h: &history::History) -> Value {
    serde_json::json!({
        "init": h.init.label(),
        "modes": h.steps.iter().map(|s| history::mode_name(s.mode)).collect::<Vec<_>>(),
        "faults": h.steps.iter().map(|s| s.fault.map(|(k, t)| format!("op {k}{}", if t { " truncated" } else { "" }))).collect::<Vec<_>>(),
        "artifact_dir": h.steps[0].project.artifact_dir,
        "first_sources": h.steps[0].project.files,
        "last_sources": h.steps.last().map(|s| s.project.files.clone()),
    })
}

/// `vcore::run_prop_parallel` with a bounded shrink budget (a shrink step of a history costs
/// several compiles, some of them CLI processes).
pub fn run_prop_parallel_budget<S, F, M>(
    report: &Report,
    name: &str,
    cases: u32,
    shrink_iters: u32,
    make: M,
    f: F,
) -> Option<(S::Value, vcore::Fail)>
where
    S: proptest::strategy::Strategy,
    S::Value: Clone + Send,
    M: Fn() -> S + Sync,
    F: Fn(&S::Value) -> Result<(), vcore::Fail> + Sync,
{
    use proptest::test_runner::{TestCaseError, TestError, TestRunner};
    let workers = vcore::num_workers().max(1);
    let per = cases.div_ceil(workers as u32).max(1);
    let mut results: Vec<Option<(S::Value, vcore::Fail)>> = Vec::new();
    std::thread::scope(|scope| {
        let handles: Vec<_> = (0..workers)
            .map(|w| {
                let make = &make;
                let f = &f;
                let seed = vcore::derive_seed(report.seed, name, w as u64);
                scope.spawn(move || {
                    let mut config = vcore::proptest_config(seed, per);
                    config.max_shrink_iters = shrink_iters;
                    let mut runner = TestRunner::new(config);
                    let last_fail: Mutex<Option<vcore::Fail>> = Mutex::new(None);
                    // once some worker has a failure the others stop exploring (their remaining
                    // cases pass trivially); only the failing worker keeps running `f` to shrink
                    let i_failed = std::cell::Cell::new(false);
                    let result = runner.run(&make(), |v| {
                        if report.is_frozen() && !i_failed.get() {
                            return Ok(());
                        }
                        match report.tolerate(f(&v)) {
                        Ok(()) => Ok(()),
                        Err(fail) => {
                            i_failed.set(true);
                            report.freeze();
                            let msg = fail.signature.clone();
                            *last_fail.lock().unwrap() = Some(fail);
                            Err(TestCaseError::fail(msg))
                        }
                        }
                    });
                    match result {
                        Ok(()) => None,
                        Err(TestError::Fail(_, value)) => {
                            let fail = match report.tolerate(f(&value)) {
                                Err(fail) => fail,
                                Ok(()) => last_fail.lock().unwrap().clone().unwrap_or_else(|| {
                                    vcore::Fail::new("flaky", "failure did not reproduce on the shrunk value")
                                }),
                            };
                            Some((value, fail))
                        }
                        Err(TestError::Abort(reason)) => {
                            report.note_inconclusive(&format!("proptest aborted: {reason}"));
                            None
                        }
                    }
                })
            })
            .collect();
        for h in handles {
            results.push(h.join().unwrap_or_else(|_| vcore::inconclusive("a harness worker thread panicked outside a guarded region")));
        }
    });
    results.into_iter().flatten().next()
}


/// Developer aid: per-compile cost of the three drivers.
fn bench() {
    use proptest::strategy::{Strategy, ValueTree};
    let base = vcore::scratch_base();
    let mut runner = proptest::test_runner::TestRunner::new(vcore::proptest_config(1, 1));
    let mut built = None;
    for _ in 0..50 {
        let seed = hgen::c18_hist_seed().new_tree(&mut runner).unwrap().current();
        let b = hgen::build_history(&seed);
        if b.history.steps.len() >= 3 && b.projects[0].client_field_count() >= 3 {
            built = Some(b);
            break;
        }
    }
    let b = built.expect("a history");
    let t = std::time::Instant::now();
    let mut w = world::World::create(&base, &b.history.steps[0].project);
    println!("create world: {:?}", t.elapsed());
    for mode in [world::Mode::FreshState, world::Mode::SameSession, world::Mode::FreshCli] {
        let t = std::time::Instant::now();
        for _ in 0..20 {
            let (_, o) = w.compile(mode, &[], None);
            assert!(o.is_ok(), "{o:?}");
        }
        println!("{mode:?}: {:?} per compile", t.elapsed() / 20);
    }
    let t = std::time::Instant::now();
    for _ in 0..20 {
        let _ = w.snapshot();
    }
    println!("snapshot: {:?} ({} files)", t.elapsed() / 20, w.snapshot().files.len());
    let t = std::time::Instant::now();
    for _ in 0..20 {
        let _ = w.fresh_artifacts();
    }
    println!("fresh_artifacts: {:?}", t.elapsed() / 20);
    let t = std::time::Instant::now();
    for _ in 0..20 {
        let _ = w.live_artifacts();
    }
    println!("live_artifacts: {:?}", t.elapsed() / 20);
    drop(w);
    vcore::remove_scratch();
}
