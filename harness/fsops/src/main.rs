fn main() {
    vcore::inconclusive("fsops: not built yet");
}
