//! A generated project on a real (tmpfs) directory, the three ways of compiling it (fresh
//! in-process session, live in-process session fed with watch events, fresh CLI process), and the
//! directory-tree model the oracles compare with.
use crate::project::Printed;
use artifact_content::get_artifact_path_and_content;
use common_lang_types::{ArtifactPathAndContent, CurrentWorkingDirectory};
use graphql_network_protocol::GraphQLAndJavascriptProfile;
use intern::string_key::Intern;
use isograph_compiler::verif::{operations_seen, set_fault_plan, FaultKind, FaultPlan};
use isograph_compiler::watch::{ChangedFileKind, SourceEventKind, SourceFileEvent};
use isograph_compiler::{batch_compile::compile, update_sources, CompilerState};
use isograph_config::create_config;
use std::collections::BTreeMap;
use std::path::{Path, PathBuf};
use std::sync::atomic::{AtomicU64, Ordering};
use std::time::{Duration, SystemTime};

pub type Profile = GraphQLAndJavascriptProfile;
pub type Files = BTreeMap<String, Vec<u8>>;

// ---------------------------------------------------------------------------------------------
// directory-tree model
// ---------------------------------------------------------------------------------------------

#[derive(Clone, Debug, Default, PartialEq, Eq)]
pub struct DirView {
    /// regular files: relative path -> bytes
    pub files: Files,
    /// directories without any entry
    pub empty_dirs: Vec<String>,
    /// anything that is neither a regular file nor a directory
    pub other: Vec<String>,
}

pub fn snapshot(dir: &Path) -> DirView {
    fn walk(base: &Path, dir: &Path, out: &mut DirView) {
        let Ok(rd) = std::fs::read_dir(dir) else { return };
        let mut entries: Vec<_> = rd.flatten().collect();
        entries.sort_by_key(|e| e.file_name());
        if entries.is_empty() && dir != base {
            out.empty_dirs.push(rel(base, dir));
        }
        for e in entries {
            let p = e.path();
            let Ok(ft) = e.file_type() else { continue };
            if ft.is_dir() {
                walk(base, &p, out);
            } else if ft.is_file() {
                out.files.insert(rel(base, &p), std::fs::read(&p).unwrap_or_default());
            } else {
                out.other.push(rel(base, &p));
            }
        }
    }
    fn rel(base: &Path, p: &Path) -> String {
        p.strip_prefix(base).unwrap_or(p).to_string_lossy().replace('\\', "/")
    }
    let mut out = DirView::default();
    if dir.is_dir() {
        walk(dir, dir, &mut out);
    }
    out
}

/// Human-readable difference between two file maps (at most `max` lines).
pub fn diff_files(expected: &Files, actual: &Files, max: usize) -> Vec<String> {
    let mut out = vec![];
    for (k, v) in expected {
        match actual.get(k) {
            None => out.push(format!("missing file: {k} ({} bytes expected)", v.len())),
            Some(a) if a != v => out.push(format!(
                "content differs: {k} (expected {} bytes, found {} bytes; first difference at byte {})",
                v.len(),
                a.len(),
                v.iter().zip(a.iter()).position(|(x, y)| x != y).unwrap_or(v.len().min(a.len()))
            )),
            _ => {}
        }
    }
    for k in actual.keys() {
        if !expected.contains_key(k) {
            out.push(format!("unexpected file: {k}"));
        }
    }
    out.truncate(max);
    out
}

/// Root-cause class of a directory mismatch (used in signatures).
pub fn mismatch_class(expected: &Files, actual: &Files) -> &'static str {
    let missing = expected.keys().any(|k| !actual.contains_key(k));
    let extra = actual.keys().any(|k| !expected.contains_key(k));
    let differs = expected.iter().any(|(k, v)| actual.get(k).is_some_and(|a| a != v));
    match (missing, extra, differs) {
        (true, false, false) => "missing-files",
        (false, true, false) => "stale-files",
        (false, false, true) => "stale-content",
        _ => "mixed",
    }
}

pub fn artifact_rel_path(a: &ArtifactPathAndContent) -> String {
    match &a.artifact_path.type_and_field {
        Some(tf) => format!("{}/{}/{}", tf.parent_entity_name, tf.selectable_name, a.artifact_path.file_name),
        None => format!("{}", a.artifact_path.file_name),
    }
}

pub fn artifacts_to_files(artifacts: &[ArtifactPathAndContent]) -> Files {
    artifacts.iter().map(|a| (artifact_rel_path(a), a.file_content.as_bytes().to_vec())).collect()
}

// ---------------------------------------------------------------------------------------------
// initial artifact directory contents
// ---------------------------------------------------------------------------------------------

#[derive(Clone, Debug, PartialEq, Eq, Hash)]
pub enum Junk {
    File(String, Vec<u8>),
    Dir(String),
}

pub const JUNK_FILES: &[&str] = &[
    "stale.ts",
    "Query",
    "iso.ts/inner.txt",
    "iso.ts",
    "tsconfig.json",
    "persisted_documents.json",
    "Query/Home/old_artifact.ts",
    "Query/Home/entrypoint.ts",
    "Query/Home",
    "Query/Gone/entrypoint.ts",
    "User/Badge/param_type.ts",
    "Zombie/field/param_type.ts",
    ".hidden",
    "deep/a/b/c/d/e.txt",
    "name with space.ts",
    "\u{fc}n\u{ef}/c\u{f6}d\u{e9}.ts",
];
pub const JUNK_DIRS: &[&str] = &["emptydir", "Query/EmptySelectable", "User", "Query/Home/entrypoint.ts", "a/b/c"];

/// Create junk under `dir` (entries that collide with earlier ones are skipped).
pub fn write_junk(dir: &Path, junk: &[Junk]) {
    let _ = std::fs::create_dir_all(dir);
    for j in junk {
        match j {
            Junk::File(rel, bytes) => {
                let p = dir.join(rel);
                if let Some(parent) = p.parent() {
                    let _ = std::fs::create_dir_all(parent);
                }
                if !p.exists() {
                    let _ = std::fs::write(&p, bytes);
                }
            }
            Junk::Dir(rel) => {
                let _ = std::fs::create_dir_all(dir.join(rel));
            }
        }
    }
}

// ---------------------------------------------------------------------------------------------
// the world
// ---------------------------------------------------------------------------------------------

#[derive(Clone, Copy, Debug, PartialEq, Eq, Hash)]
pub enum Mode {
    /// `update_sources` + `compile` on the live `CompilerState` (watch-style recompile)
    SameSession,
    /// a new `CompilerState` in this process (batch compile); it stays alive as the live session
    FreshState,
    /// a new CLI process (batch compile)
    FreshCli,
}

#[derive(Clone, Debug)]
pub enum Outcome {
    Ok { written: usize },
    /// the compile reported error diagnostics (exit code 1 for the CLI)
    Diagnostics(String),
    /// the compiler panicked / exited abnormally (C08's subject, not ours)
    Panic(String),
    /// an injected write fault made the compile fail
    Faulted(String),
}

impl Outcome {
    pub fn is_ok(&self) -> bool {
        matches!(self, Outcome::Ok { .. })
    }
}

static COUNTER: AtomicU64 = AtomicU64::new(0);
pub const OLD_MTIME_SECS: u64 = 1_000_000;

pub struct World {
    pub root: PathBuf,
    pub art: PathBuf,
    pub printed: Printed,
    on_disk: BTreeMap<String, String>,
    pub state: Option<CompilerState<Profile>>,
    /// number of operations the last in-process compile started (fault hook counter)
    pub last_operations_seen: usize,
}

impl Drop for World {
    fn drop(&mut self) {
        self.state = None;
        let _ = std::fs::remove_dir_all(&self.root);
    }
}

impl World {
    pub fn create(base: &Path, p: &Printed) -> World {
        let n = COUNTER.fetch_add(1, Ordering::SeqCst);
        let root = base.join(format!("w{n}"));
        let _ = std::fs::remove_dir_all(&root);
        std::fs::create_dir_all(root.join("src")).expect("create project dir");
        let mut w = World {
            art: root.join(&p.artifact_dir),
            root,
            printed: p.clone(),
            on_disk: BTreeMap::new(),
            state: None,
            last_operations_seen: 0,
        };
        std::fs::write(w.root.join("isograph.config.json"), &p.config).expect("write config");
        w.set_project(p);
        w
    }

    fn cwd(&self) -> CurrentWorkingDirectory {
        self.root.to_str().expect("utf-8 path").intern().into()
    }

    /// Bring the files on disk to the printed form of `p`; returns the events the watcher's
    /// categoriser produces for such changes (created/modified file -> CreateOrModify as source
    /// file; removed file -> Remove, categorised as a folder because the path no longer is a file;
    /// schema -> Schema).
    pub fn set_project(&mut self, p: &Printed) -> Vec<SourceFileEvent> {
        assert_eq!(p.config, self.printed.config, "the config never changes inside a history");
        let new = p.files.clone();
        let mut events: Vec<SourceFileEvent> = vec![];
        for (rel, text) in &new {
            if self.on_disk.get(rel) != Some(text) {
                let abs = self.root.join(rel);
                if let Some(parent) = abs.parent() {
                    std::fs::create_dir_all(parent).expect("create source dir");
                }
                std::fs::write(&abs, text).expect("write source");
                let kind = if rel == "schema.graphql" { ChangedFileKind::Schema } else { ChangedFileKind::JavaScriptSourceFile };
                events.push((SourceEventKind::CreateOrModify(abs), kind));
            }
        }
        for rel in self.on_disk.keys() {
            if !new.contains_key(rel) {
                let abs = self.root.join(rel);
                let _ = std::fs::remove_file(&abs);
                let kind = if rel == "schema.graphql" { ChangedFileKind::Schema } else { ChangedFileKind::JavaScriptSourceFolder };
                events.push((SourceEventKind::Remove(abs), kind));
            }
        }
        self.on_disk = new;
        self.printed = p.clone();
        events
    }

    pub fn snapshot(&self) -> DirView {
        snapshot(&self.art)
    }

    /// Give every artifact file an old modification time, so that files written by the next
    /// compile can be told from files it left alone. Content is not touched.
    pub fn age_files(&self) {
        let t = SystemTime::UNIX_EPOCH + Duration::from_secs(OLD_MTIME_SECS);
        for rel in snapshot(&self.art).files.keys() {
            if let Ok(f) = std::fs::OpenOptions::new().write(true).open(self.art.join(rel)) {
                let _ = f.set_modified(t);
            }
        }
    }

    /// Files whose modification time is no longer the one `age_files` gave them.
    pub fn touched_since_aging(&self) -> Vec<String> {
        let t = SystemTime::UNIX_EPOCH + Duration::from_secs(OLD_MTIME_SECS);
        snapshot(&self.art)
            .files
            .keys()
            .filter(|rel| std::fs::metadata(self.art.join(rel)).and_then(|m| m.modified()).map(|m| m != t).unwrap_or(true))
            .cloned()
            .collect()
    }

    fn fresh_state(&self) -> Result<CompilerState<Profile>, Outcome> {
        let cwd = self.cwd();
        let config_path = self.root.join("isograph.config.json");
        let config = match vcore::catch_panic(|| create_config(&config_path, cwd)) {
            Ok(c) => c,
            Err(p) => return Err(Outcome::Panic(format!("create_config: {p}"))),
        };
        match vcore::catch_panic(|| CompilerState::<Profile>::new(config, cwd)) {
            Ok(Ok(s)) => Ok(s),
            Ok(Err(d)) => Err(Outcome::Diagnostics(format!("{d}"))),
            Err(p) => Err(Outcome::Panic(format!("CompilerState::new: {p}"))),
        }
    }

    fn run_compile(&mut self, fault: Option<FaultPlan>) -> Outcome {
        let state = self.state.as_mut().expect("live state");
        set_fault_plan(fault);
        let r = vcore::catch_panic(|| compile::<Profile>(state));
        self.last_operations_seen = operations_seen();
        let fired = fault.is_some() && fault.map(|f| f.fail_at_operation < self.last_operations_seen).unwrap_or(false);
        set_fault_plan(None);
        match r {
            Ok(Ok(stats)) => Outcome::Ok { written: stats.total_artifacts_written },
            Ok(Err(diags)) => {
                let text = diags.iter().map(|d| format!("{d:?}")).collect::<Vec<_>>().join("\n");
                if fired && text.contains("injected fault") {
                    Outcome::Faulted(text)
                } else {
                    Outcome::Diagnostics(text)
                }
            }
            Err(p) => {
                self.state = None;
                Outcome::Panic(p)
            }
        }
    }

    /// Compile the project as it is on disk. `events` are the watch events since the last
    /// compile (used by `SameSession` only; when there is no live session a fresh one is made).
    pub fn compile(&mut self, mode: Mode, events: &[SourceFileEvent], fault: Option<FaultPlan>) -> (Mode, Outcome) {
        match mode {
            Mode::SameSession if self.state.is_some() => {
                let state = self.state.as_mut().unwrap();
                if !events.is_empty() {
                    match vcore::catch_panic(|| update_sources(&mut state.db, events)) {
                        Ok(Ok(())) => {}
                        Ok(Err(diags)) => {
                            // the real watch loop returns the error and the process ends
                            self.state = None;
                            let text = diags.iter().map(|d| format!("{d}")).collect::<Vec<_>>().join("\n");
                            return (Mode::SameSession, Outcome::Diagnostics(format!("update_sources: {text}")));
                        }
                        Err(p) => {
                            self.state = None;
                            return (Mode::SameSession, Outcome::Panic(format!("update_sources: {p}")));
                        }
                    }
                }
                (Mode::SameSession, self.run_compile(fault))
            }
            Mode::SameSession | Mode::FreshState => {
                self.state = None;
                match self.fresh_state() {
                    Ok(s) => {
                        self.state = Some(s);
                        (Mode::FreshState, self.run_compile(fault))
                    }
                    Err(o) => (Mode::FreshState, o),
                }
            }
            Mode::FreshCli => {
                // another process writes the directory: the live session (if any) is over
                self.state = None;
                assert!(fault.is_none(), "faults can only be injected in-process");
                let out = std::process::Command::new(vcore::cli_path())
                    .arg("--config")
                    .arg("./isograph.config.json")
                    .current_dir(&self.root)
                    .env("RUST_BACKTRACE", "0")
                    .env("NO_COLOR", "1")
                    .output();
                let o = match out {
                    Err(e) => Outcome::Panic(format!("cannot run the CLI: {e}")),
                    Ok(out) => {
                        let text = String::from_utf8_lossy(&out.stderr).to_string();
                        match out.status.code() {
                            Some(0) => Outcome::Ok { written: 0 },
                            Some(1) => Outcome::Diagnostics(text),
                            other => Outcome::Panic(format!("CLI exit status {other:?}: {}", tail(&text, 400))),
                        }
                    }
                };
                (Mode::FreshCli, o)
            }
        }
    }

    /// The artifacts the live session generates for its current sources (what the last
    /// successful `compile` of this session generated: the database has not changed since).
    pub fn live_artifacts(&self) -> Option<Result<Files, String>> {
        let state = self.state.as_ref()?;
        Some(match vcore::catch_panic(|| get_artifact_path_and_content(&state.db)) {
            Ok(Ok((artifacts, _))) => Ok(artifacts_to_files(&artifacts)),
            Ok(Err(d)) => Err(format!("diagnostics: {}", d.iter().map(|d| format!("{d:?}")).collect::<Vec<_>>().join("; "))),
            Err(p) => Err(format!("panic: {p}")),
        })
    }

    /// Artifacts of a brand-new database over the sources on disk; nothing is written.
    pub fn fresh_artifacts(&self) -> Result<Files, String> {
        if !self.printed.files.contains_key("schema.graphql") {
            return Err("schema missing".to_string());
        }
        let state = match self.fresh_state() {
            Ok(s) => s,
            Err(o) => return Err(format!("{o:?}")),
        };
        match vcore::catch_panic(|| get_artifact_path_and_content(&state.db)) {
            Ok(Ok((artifacts, _))) => Ok(artifacts_to_files(&artifacts)),
            Ok(Err(d)) => Err(format!("diagnostics: {}", d.iter().map(|d| format!("{d:?}")).collect::<Vec<_>>().join("; "))),
            Err(p) => Err(format!("panic: {p}")),
        }
    }
}

pub fn tail(s: &str, n: usize) -> String {
    let chars: Vec<char> = s.chars().collect();
    chars[chars.len().saturating_sub(n)..].iter().collect()
}

pub fn fault_plan(k: usize, truncated: bool) -> FaultPlan {
    FaultPlan { fail_at_operation: k, kind: if truncated { FaultKind::TruncatedWrite } else { FaultKind::ErrorBefore } }
}
