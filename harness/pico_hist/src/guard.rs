//! Making an abort of the process observable.
//!
//! pico can take the whole process down without unwinding: `clear_retain` takes its
//! `RetainedQuery` by value, so when it panics the guard is dropped while still "retained", its
//! destructor panics during unwinding and the runtime aborts. For C03 ("no history ... triggers
//! undefined behaviour", pico panics count) that IS a verdict about pico, not a harness problem.
//!
//! Mechanism: the check runs in a child process of itself. Every worker thread of the child keeps
//! the history it is executing in a small per-thread file on tmpfs (`R <switches> <history>` before
//! `run_history`, `I` afterwards; two or three cheap syscalls per case). If the child is killed by
//! a signal, the parent reads the histories that were in flight, re-runs each one in a fresh child
//! (`probe`) to see which reproduces the death, shrinks it by deleting operations (one probe per
//! attempt) and reports it as a violation with the history as the replay. A death that no
//! in-flight history reproduces is a harness problem and stays inconclusive.
use std::cell::RefCell;
use std::fs::File;
use std::io::{Seek, SeekFrom, Write};
use std::os::unix::process::ExitStatusExt;
use std::path::PathBuf;
use std::process::{Command, Stdio};
use std::sync::atomic::{AtomicUsize, Ordering};

use crate::interp::{self, Op, Options, Outcome};

pub const ENV_CHILD: &str = "VERIF_PICO_CHILD";
pub const ENV_INFLIGHT: &str = "VERIF_PICO_INFLIGHT";
pub const ENV_PROBE: &str = "VERIF_PICO_PROBE";

static NEXT_SLOT: AtomicUsize = AtomicUsize::new(0);

thread_local! {
    static SLOT: RefCell<Option<File>> = const { RefCell::new(None) };
}

fn flags(o: &Options) -> String {
    format!(
        "a{}e{}s{}",
        o.exclude_absent_singleton_read as u8, o.exclude_equal_value_write as u8, o.exclude_second_intern_owner as u8
    )
}

fn parse_flags(s: &str) -> Options {
    Options {
        exclude_absent_singleton_read: s.contains("a1"),
        exclude_equal_value_write: s.contains("e1"),
        exclude_second_intern_owner: s.contains("s1"),
    }
}

fn mark(text: Option<&str>) {
    let Some(dir) = std::env::var_os(ENV_INFLIGHT) else { return };
    SLOT.with(|slot| {
        let mut slot = slot.borrow_mut();
        if slot.is_none() {
            let n = NEXT_SLOT.fetch_add(1, Ordering::SeqCst);
            let path = PathBuf::from(&dir).join(format!("inflight-{}-{n}.txt", std::process::id()));
            *slot = File::create(path).ok();
        }
        if let Some(f) = slot.as_mut() {
            let _ = f.seek(SeekFrom::Start(0));
            match text {
                Some(t) => {
                    let _ = f.set_len(0);
                    let _ = f.write_all(t.as_bytes());
                }
                None => {
                    let _ = f.write_all(b"I");
                }
            }
        }
    });
}

/// Run one history with the in-flight marker set while pico code can run.
pub fn guarded_run(cap: usize, ops: &[Op], opts: &Options) -> Outcome {
    mark(Some(&format!("R {} {}", flags(opts), interp::encode_history(cap, ops))));
    let out = match vcore::catch_panic(|| interp::run_history(cap, ops, opts)) {
        Ok(o) => o,
        Err(p) => {
            mark(None);
            vcore::inconclusive(&format!("pico_hist interpreter panicked outside a guarded region: {p}"))
        }
    };
    mark(None);
    out
}

/// Child side of a probe: run exactly one history, nothing else.
pub fn probe_main(path: &str) -> ! {
    let text = std::fs::read_to_string(path).unwrap_or_default();
    let mut it = text.trim().splitn(3, ' ');
    let (_, fl, hist) = (it.next(), it.next().unwrap_or(""), it.next().unwrap_or(""));
    let Some((cap, ops)) = interp::decode_history(hist) else { std::process::exit(3) };
    let _ = interp::run_history(cap, &ops, &parse_flags(fl));
    std::process::exit(0)
}

pub struct Death {
    pub signal: i32,
    pub stderr: String,
}

/// Re-run one history in a fresh process. `Some(death)` if that process is killed by a signal.
pub fn probe(cap: usize, ops: &[Op], opts: &Options, dir: &std::path::Path) -> Option<Death> {
    let file = dir.join("probe.txt");
    std::fs::write(&file, format!("R {} {}", flags(opts), interp::encode_history(cap, ops))).ok()?;
    let exe = std::env::current_exe().ok()?;
    let out = Command::new(exe)
        .args(std::env::args().skip(1))
        .env(ENV_CHILD, "1")
        .env(ENV_PROBE, &file)
        .env_remove(ENV_INFLIGHT)
        .stdout(Stdio::null())
        .stderr(Stdio::piped())
        .output()
        .ok()?;
    out.status.signal().map(|signal| Death { signal, stderr: String::from_utf8_lossy(&out.stderr).to_string() })
}

/// Histories that were being executed when the child died: (switches, cap, ops), sorted by text.
pub fn in_flight(dir: &std::path::Path) -> Vec<(Options, usize, Vec<Op>)> {
    let mut texts = vec![];
    if let Ok(rd) = std::fs::read_dir(dir) {
        for e in rd.flatten() {
            if !e.file_name().to_string_lossy().starts_with("inflight-") {
                continue;
            }
            if let Ok(t) = std::fs::read_to_string(e.path()) {
                if t.starts_with("R ") {
                    texts.push(t);
                }
            }
        }
    }
    texts.sort();
    texts.dedup();
    let mut out = vec![];
    for t in texts {
        let mut it = t.trim().splitn(3, ' ');
        let (_, fl, hist) = (it.next(), it.next().unwrap_or(""), it.next().unwrap_or(""));
        if let Some((cap, ops)) = interp::decode_history(hist) {
            out.push((parse_flags(fl), cap, ops));
        }
    }
    out
}

/// Delete operations while the death reproduces (greedy, from the end: everything after the
/// fatal operation goes first).
pub fn shrink(cap: usize, ops: Vec<Op>, opts: &Options, dir: &std::path::Path) -> Vec<Op> {
    let mut ops = ops;
    let mut i = ops.len();
    while i > 0 {
        i -= 1;
        let mut cand = ops.clone();
        cand.remove(i);
        if !cand.is_empty() && probe(cap, &cand, opts, dir).is_some() {
            ops = cand;
        }
    }
    ops
}

pub fn signature(d: &Death) -> String {
    let e = &d.stderr;
    if d.signal == 6 && (e.contains("non-unwinding panic") || e.contains("panic in a destructor") || e.contains("panicked while panicking") || e.contains("panic in a function that cannot unwind")) {
        "abort:non-unwinding-panic".to_string()
    } else {
        format!("abort:signal-{}", d.signal)
    }
}

/// Spawn this very binary as the child that does the real work. Returns the exit code, or the
/// signal that killed it.
pub fn run_child(dir: &std::path::Path) -> Result<i32, i32> {
    let exe = std::env::current_exe().unwrap_or_else(|e| vcore::inconclusive(&format!("current_exe: {e}")));
    let status = Command::new(exe)
        .args(std::env::args().skip(1))
        .env(ENV_CHILD, "1")
        .env(ENV_INFLIGHT, dir)
        .status()
        .unwrap_or_else(|e| vcore::inconclusive(&format!("cannot start the worker process: {e}")));
    match status.code() {
        Some(c) => Ok(c),
        None => Err(status.signal().unwrap_or(0)),
    }
}
