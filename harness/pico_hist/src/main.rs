//! C01, C02, C03 — pico histories (G-HIST) against the real database and a reference model.
//! See `interp.rs` for the interpreter, the function family and the oracles.
use proptest::prelude::*;
use serde_json::{Value, json};
use vcore::{Args, Fail, Report, Tier};

mod guard;
mod interp;
mod miri;

use interp::{CallSpec, IntKey, Op, Options, Outcome, RawFn};

fn main() {
    let args = vcore::parse_args();
    if !matches!(args.property.as_str(), "C01" | "C02" | "C03") {
        vcore::inconclusive(&format!("pico_hist: unknown property {}", args.property));
    }
    if let Ok(path) = std::env::var(guard::ENV_PROBE) {
        guard::probe_main(&path);
    }
    if std::env::var_os(guard::ENV_CHILD).is_some() {
        run(&args);
        return;
    }
    supervise(&args);
}

/// Parent side (see `guard.rs`): run the check in a child process; if pico kills that process
/// while a history is executing, that history is the counterexample.
fn supervise(args: &Args) -> ! {
    let dir = vcore::scratch_base().join("inflight");
    let _ = std::fs::create_dir_all(&dir);
    let signal = match guard::run_child(&dir) {
        Ok(code) => {
            vcore::remove_scratch();
            std::process::exit(code)
        }
        Err(signal) => signal,
    };
    let property = args.property.as_str();
    println!("NOTE: the worker process was killed by signal {signal}; looking for the history that was executing");
    let mut found = None;
    for (opts, cap, ops) in guard::in_flight(&dir) {
        if let Some(death) = guard::probe(cap, &ops, &opts, &dir) {
            found = Some((opts, cap, ops, death));
            break;
        }
    }
    let Some((opts, cap, ops, death)) = found else {
        vcore::inconclusive(&format!(
            "the worker process was killed by signal {signal}, and no history that was executing at that moment reproduces it in a fresh process (a harness problem, not a verdict about pico)"
        ));
    };
    // strict replay: the input is reported as it is; campaign: shrink by deleting operations
    let ops = if args.replay.is_some() { ops } else { guard::shrink(cap, ops, &opts, &dir) };
    let death = guard::probe(cap, &ops, &opts, &dir).unwrap_or(death);
    let h: History = (cap, ops);
    let last_is_call = matches!(h.1.last(), Some(Op::Call(_)));
    let counts = match property {
        "C03" => true,
        // "every memoized call returns a value": a call that takes the process down returned nothing
        "C01" => last_is_call,
        _ => false,
    };
    // the panic messages (a line with "panicked at" and the one after it) and the runtime's last words
    let lines: Vec<&str> = death.stderr.lines().collect();
    let mut tail: Vec<&str> = vec![];
    for (i, l) in lines.iter().enumerate() {
        if l.contains("panicked at") {
            tail.push(l);
            if let Some(n) = lines.get(i + 1) {
                tail.push(n);
            }
        }
    }
    let mut last: Vec<&str> = lines.iter().rev().filter(|l| !l.trim().is_empty()).take(2).copied().collect();
    last.reverse();
    tail.extend(last);
    tail.truncate(16);
    let fail = Fail::new(
        guard::signature(&death),
        format!(
            "pico aborted the whole process (signal {}) while executing `{}` of this history; last lines of stderr:\n{}",
            death.signal,
            h.1.last().map(|o| o.encode()).unwrap_or_default(),
            tail.join("\n")
        ),
    );
    if !counts {
        println!("history: {}", interp::encode_history(h.0, &h.1));
        println!("{}", fail.message);
        vcore::inconclusive(&format!(
            "pico killed the worker process ({}) during an operation {property} does not speak about; this is a C03 verdict (run ./check C03), the {property} campaign could not continue",
            fail.signature
        ));
    }
    let report = Report::new(args, "exploration", rule(property));
    report.engine("stateful");
    report.engine("process-supervision");
    report.case(Some("abort-marker-1"), &["worker-process-killed-by-signal"]);
    report.case(Some("abort-marker-2"), &[]);
    report.sample("abort", 1, || history_json(&h));
    match report.tolerate(Err(fail)) {
        Ok(()) => {}
        Err(fail) => {
            report.violation(if args.replay.is_some() { "replay-abort" } else { "abort" }, &fail, history_json(&h));
        }
    }
    report.finish()
}

// ------------------------------------------------------------------------------------------------
// G-HIST strategies
// ------------------------------------------------------------------------------------------------

fn key() -> impl Strategy<Value = u8> {
    0..interp::KEYS
}
fn val() -> impl Strategy<Value = i32> {
    -2..=2i32
}
fn name() -> impl Strategy<Value = u8> {
    prop_oneof![3 => 0..3u8, 1 => Just(9u8)]
}
fn keys() -> impl Strategy<Value = Vec<u8>> {
    prop::collection::vec(key(), 0..=3)
}
fn int_key() -> impl Strategy<Value = IntKey> {
    prop_oneof![
        3 => Just(IntKey::CfgRaw),
        2 => key().prop_map(IntKey::ValRaw),
        2 => Just(IntKey::SumRaw),
        1 => key().prop_map(IntKey::PairRaw),
        1 => (-1..=2i32).prop_map(IntKey::Interned),
    ]
}

fn call_spec() -> impl Strategy<Value = CallSpec> {
    use CallSpec::*;
    prop_oneof![
        1 => key().prop_map(ValOf),
        1 => key().prop_map(ValOfRef),
        3 => Just(CfgOr),
        2 => key().prop_map(ClampOf),
        3 => Just(SumTracked),
        1 => key().prop_map(UntrackedVal),
        1 => keys().prop_map(SumKeys),
        1 => keys().prop_map(SumKeysRef),
        2 => Just(Branchy),
        1 => Just(CfgRaw),
        1 => key().prop_map(ValRaw),
        1 => Just(SumRaw),
        2 => int_key().prop_map(DoubleRef),
        1 => int_key().prop_map(DoubleRefB),
        2 => Just(Quad),
        1 => Just(Rows),
        1 => Just(RowsB),
        2 => name().prop_map(RowRef),
        2 => name().prop_map(RowRefB),
        2 => name().prop_map(RowScore),
        1 => name().prop_map(RowScoreB),
        1 => Just(InternedCfg),
        1 => (-1..=2i32).prop_map(UseInterned),
        1 => Just(UseChain),
        2 => Just(KeysTotal),
        3 => key().prop_map(PairRaw),
        1 => (key(), keys()).prop_map(|(x, ys)| PairChild(x, ys)),
        1 => (key(), keys()).prop_map(|(x, ys)| PairChildRef(x, ys)),
        1 => (key(), 0..2u8, keys()).prop_map(|(x, y, ys)| TripleChild(x, y, ys)),
        1 => (name(), any::<bool>()).prop_map(|(n, b)| RowParamVia(n, b)),
    ]
}

fn raw_fn() -> impl Strategy<Value = RawFn> {
    prop_oneof![2 => Just(RawFn::CfgRaw), 1 => key().prop_map(RawFn::ValRaw), 2 => Just(RawFn::SumRaw), 2 => key().prop_map(RawFn::PairRaw)]
}

/// weights: (writes, calls, gc-related)
fn op(gc_heavy: bool) -> impl Strategy<Value = Op> {
    let g = if gc_heavy { 3 } else { 1 };
    prop_oneof![
        6 => (key(), val()).prop_map(|(k, v)| Op::Set(k, v)),
        2 => key().prop_map(Op::Remove),
        3 => val().prop_map(Op::SetCfg),
        1 => Just(Op::RemoveCfg),
        4 => key().prop_map(Op::TrackedInsert),
        1 => key().prop_map(Op::TrackedRemove),
        22 => call_spec().prop_map(Op::Call),
        1 => (-1..=2i32).prop_map(Op::InternValue),
        2 * g => any::<u16>().prop_map(Op::Lookup),
        g => raw_fn().prop_map(Op::Retain),
        g => any::<u16>().prop_map(Op::RetainHandle),
        g => any::<u16>().prop_map(Op::ClearRetain),
        g => any::<u16>().prop_map(Op::NeverGc),
        2 * g => Just(Op::Gc),
    ]
}

/// operations around the `intern_ref` chain (rows / rows_b / row_ref / lookups / collections)
fn row_op() -> impl Strategy<Value = Op> {
    use CallSpec::*;
    prop_oneof![
        3 => (key(), -1..=1i32).prop_map(|(k, v)| Op::Set(k, v)),
        3 => key().prop_map(Op::TrackedInsert),
        2 => (-1..=1i32).prop_map(Op::SetCfg),
        3 => name().prop_map(|n| Op::Call(RowRef(n))),
        3 => name().prop_map(|n| Op::Call(RowRefB(n))),
        1 => name().prop_map(|n| Op::Call(RowScore(n))),
        1 => name().prop_map(|n| Op::Call(RowScoreB(n))),
        1 => (name(), any::<bool>()).prop_map(|(n, b)| Op::Call(RowParamVia(n, b))),
        1 => Just(Op::Call(Rows)),
        4 => any::<u16>().prop_map(Op::Lookup),
        3 => Just(Op::Gc),
    ]
}

pub fn mixed_op(gc_heavy: bool, row_weight: u32) -> impl Strategy<Value = Op> {
    prop_oneof![10 => op(gc_heavy), row_weight => row_op()]
}

/// A history built around one row that both producers (`rows`, `rows_b`) can yield: the key is
/// written and tracked, both `row_ref` variants are called (either order, possibly in one epoch),
/// then collections and lookups; arbitrary operations are interleaved. This reaches by
/// construction the "equal value interned again at another address" case of C03.
pub fn row_scenario(max_extra: usize) -> impl Strategy<Value = History> {
    use CallSpec::*;
    (1..=3usize, 0..2u8, -1..=1i32, prop::option::of(-1..=1i32), any::<bool>(), prop::collection::vec((mixed_op(true, 10), any::<u16>()), 0..=max_extra), 1..=3usize).prop_map(
        |(cap, k, v, cfg, b_first, extra, lookups)| {
            let mut ops = vec![Op::Set(k, v), Op::TrackedInsert(k)];
            if let Some(c) = cfg {
                ops.push(Op::SetCfg(c));
            }
            let (x, y) = if b_first { (RowRefB(k), RowRef(k)) } else { (RowRef(k), RowRefB(k)) };
            ops.push(Op::Call(x));
            ops.push(Op::Call(y));
            ops.push(Op::Gc);
            for i in 0..lookups {
                ops.push(Op::Lookup(i as u16));
            }
            // interleave the extra operations at generated positions (after the two writes)
            for (op, at) in extra {
                let pos = 2 + vcore::pick_index(at, ops.len() - 1);
                ops.insert(pos, op);
            }
            (cap, ops)
        },
    )
}

fn interleave(mut ops: Vec<Op>, extra: Vec<(Op, u16)>, keep_prefix: usize) -> Vec<Op> {
    for (op, at) in extra {
        let pos = keep_prefix + vcore::pick_index(at, ops.len() + 1 - keep_prefix);
        ops.insert(pos, op);
    }
    ops
}

/// A parent that stays a GC root (LRU or retain) while its children, which share its first
/// parameter and carry further owned / borrowed parameters, survive a collection only through
/// reachability; then a source the children read changes and the PARENT is called again, so the
/// children are reached by dependency verification with the parameters the collector kept.
pub fn param_scenario(max_extra: usize) -> impl Strategy<Value = History> {
    (
        (1..=3usize, key(), prop::collection::vec((key(), val()), 1..=3), any::<bool>(), 1..=2usize),
        (key(), val(), any::<bool>(), prop::collection::vec((mixed_op(true, 1), any::<u16>()), 0..=max_extra)),
    )
        .prop_map(|((cap, x, sets, retain, gcs), (wk, wv, direct_child_after, extra))| {
            let mut ops = vec![];
            for (k, v) in &sets {
                ops.push(Op::Set(*k, *v));
                ops.push(Op::TrackedInsert(*k));
            }
            let prefix = ops.len();
            ops.push(if retain { Op::Retain(RawFn::PairRaw(x)) } else { Op::Call(CallSpec::PairRaw(x)) });
            for _ in 0..gcs {
                ops.push(Op::Gc);
            }
            ops.push(Op::Set(wk, wv));
            ops.push(Op::TrackedInsert(wk));
            ops.push(Op::Call(CallSpec::PairRaw(x)));
            if direct_child_after {
                ops.push(Op::Call(CallSpec::PairChild(x, vec![x % interp::KEYS, 1])));
            }
            (cap, interleave(ops, extra, prefix))
        })
}

/// The same query retained several times: one guard made permanent, another cleared, the query
/// evicted from the LRU by other top-level calls, a collection, then reads of the query.
pub fn retain_scenario(max_extra: usize) -> impl Strategy<Value = History> {
    (
        (1..=2usize, raw_fn(), 2..=3usize, any::<u16>(), any::<u16>(), any::<bool>()),
        (prop::collection::vec(call_spec(), 1..=4), 0..=2usize, prop::collection::vec((mixed_op(true, 1), any::<u16>()), 0..=max_extra)),
    )
        .prop_map(|((cap, f, n, never_at, clear_at, never_first), (others, more_clears, extra))| {
            let mut ops = vec![Op::Set(0, 1), Op::Set(1, 0), Op::Set(2, -1), Op::TrackedInsert(0), Op::SetCfg(1)];
            let prefix = ops.len();
            for _ in 0..n {
                ops.push(Op::Retain(f.clone()));
            }
            if never_first {
                ops.push(Op::NeverGc(never_at));
                ops.push(Op::ClearRetain(clear_at));
            } else {
                ops.push(Op::ClearRetain(clear_at));
                ops.push(Op::NeverGc(never_at));
            }
            for o in others {
                ops.push(Op::Call(o));
            }
            ops.push(Op::Gc);
            ops.push(Op::Lookup(0));
            let again = match &f {
                RawFn::CfgRaw => CallSpec::CfgRaw,
                RawFn::SumRaw => CallSpec::SumRaw,
                RawFn::ValRaw(k) => CallSpec::ValRaw(*k),
                RawFn::PairRaw(x) => CallSpec::PairRaw(*x),
            };
            ops.push(Op::Call(again));
            for i in 0..more_clears {
                ops.push(Op::ClearRetain(i as u16));
            }
            ops.push(Op::Gc);
            (cap, interleave(ops, extra, prefix))
        })
}

type History = (usize, Vec<Op>);

fn history(gc_heavy: bool, max_len: usize) -> impl Strategy<Value = History> {
    let plain = (1..=3usize, prop::collection::vec(mixed_op(gc_heavy, if gc_heavy { 3 } else { 1 }), 1..=max_len));
    prop_oneof![
        if gc_heavy { 12 } else { 30 } => plain,
        1 => row_scenario(12),
        if gc_heavy { 2 } else { 1 } => param_scenario(8),
        if gc_heavy { 2 } else { 1 } => retain_scenario(8),
    ]
}

pub fn history_json(h: &History) -> Value {
    json!({"cap": h.0, "ops": h.1.iter().map(|o| o.encode()).collect::<Vec<_>>()})
}

pub fn history_from_json(v: &Value) -> Option<History> {
    let cap = v["cap"].as_u64()? as usize;
    let mut ops = vec![];
    for o in v["ops"].as_array()? {
        ops.push(Op::decode(o.as_str()?)?);
    }
    Some((cap, ops))
}

// ------------------------------------------------------------------------------------------------
// judging an outcome for one property
// ------------------------------------------------------------------------------------------------

/// Which failure classes count for which property (see `interp::Failure::class`).
fn counts_for(property: &str, class: &str) -> bool {
    match property {
        // "every memoized call returns a value equal to ...": a call that panics returned nothing
        "C01" => matches!(class, "C01" | "PANIC-CALL"),
        "C02" => matches!(class, "C02"),
        // "never breaks reads / no undefined behaviour": any pico panic counts
        "C03" => matches!(class, "C03" | "PANIC-CALL" | "PANIC-OTHER"),
        _ => false,
    }
}

fn judge(property: &str, report: &Report, h: &History, out: &Outcome) -> Result<(), Fail> {
    let nontrivial = match property {
        "C01" => out.nontrivial_c01,
        "C02" => out.nontrivial_c02,
        _ => out.nontrivial_c03,
    };
    let labels: Vec<&str> = out.labels.iter().copied().collect();
    let text = interp::encode_history(h.0, &h.1);
    report.case(if nontrivial { Some(text.as_str()) } else { None }, &labels);
    report.label_n("ops-executed", out.executed_ops as u64);
    report.label_n("ops-skipped(outside-contract-or-not-live)", out.skipped_ops as u64);
    report.label_n("body-executions", out.body_executions);
    report.label_n("lookups-checked", out.lookups_checked);
    for _ in 0..out.excluded_second_owner {
        report.excluded("C03 intern-ref-pointer-outlives-owner (the second owner of equal rows never interns)");
    }
    if nontrivial {
        report.sample("non-trivial", 3, || history_json(h));
    } else {
        report.sample("trivial", 1, || history_json(h));
    }
    match &out.failure {
        None => Ok(()),
        Some(f) if f.class == "HARNESS" => Err(Fail::new(format!("harness-internal:{}", f.signature), format!("step {}: {}", f.step, f.message))),
        Some(f) if counts_for(property, f.class) => Err(Fail::new(f.signature.clone(), format!("step {}: {}", f.step, f.message))),
        Some(f) => {
            report.label(&format!("cut-short-by-other-property:{}:{}", f.class, f.signature));
            Ok(())
        }
    }
}

fn options(report: &Report, property: &str) -> Options {
    // Known findings recorded as open are excluded by construction so the search continues
    // behind them (the exclusion is counted in the evidence).
    let listed = |sig: &str| report.known_findings().iter().any(|k| k.signature == sig);
    let _ = property;
    let _ = listed;
    Options {
        // C01 `stale-result` (absent source) and C02 `equal-value-write` were repaired in /repo; the
        // switches stay for the case that such a finding is recorded as open again
        exclude_absent_singleton_read: !report.strict && open_finding("C01", "stale-result:absent-source-read"),
        exclude_equal_value_write: !report.strict && open_finding("C02", "spurious-reexecution:equal-value-write"),
        exclude_second_intern_owner: !report.strict && open_finding("C03", "intern-ref-pointer-outlives-owner"),
    }
}

/// Is (property, signature) listed as an open finding? (The interpreter is shared by C01-C03, so
/// an open C03 finding that makes pico read freed memory is excluded from all three searches.)
fn open_finding(property: &str, signature: &str) -> bool {
    let path = vcore::verif_root().join("known_findings.json");
    let Ok(text) = std::fs::read_to_string(path) else { return false };
    let Ok(v) = serde_json::from_str::<Value>(&text) else { return false };
    v["findings"].as_array().map(|a| a.iter().any(|f| f["status"] == "open" && f["property"] == property && f["signature"] == signature)).unwrap_or(false)
}

fn rule(property: &str) -> &'static str {
    match property {
        "C01" => {
            "histories (LRU capacity 1..=3, <=40 ops over 3 keyed sources + 1 singleton + 1 tracked map, 30 memoized \
             function shapes incl. parents whose children share their first parameter) interpreted against pico and a never-memoizing model; non-trivial = the history \
             calls a memoized function again after a write changed one of its transitive inputs; distinct by history text"
        }
        "C02" => {
            "same histories; per-(function,args) execution counters judged by the early-cut-off model; non-trivial = an \
             equal-value write after an unrelated change is followed by a call of a cached reader of that source, or an \
             intermediate with cached dependents re-ran with an equal value (backdating)"
        }
        _ => {
            "GC-heavy histories; non-trivial = a collection ran with more distinct top-level calls than the LRU \
             capacity, or with a retained query; execution counters and handle lookups judged against the root model \
             (retained + LRU closure)"
        }
    }
}

fn run(args: &Args) {
    let property = args.property.as_str();
    let report = Report::new(args, "exploration", rule(property));
    report.engine("stateful");
    report.engine("pbt");
    report.assumption("memoized bodies are pure functions of what they read through the database (the harness writes them once, generic over pico and the model)");
    report.assumption("documented pico preconditions hold by construction: no write during a call, SourceId arguments only while the source exists, a tracked-map entry is removed together with its source, untracked() only for present keys, RetainedQuery always cleared or made permanent");
    if property == "C03" {
        report.assumption("handles are looked up only while the model says they have a stated contract: obtained after the last write, and from a node in the closure of the GC roots if a collection ran since; a pointer-kind (intern_ref) handle is never retained on its own");
    }
    let opts = options(&report, property);

    let run_one = |h: &History| -> Outcome { guard::guarded_run(h.0, &h.1, &opts) };

    if let Some(path) = &args.replay {
        let doc = vcore::read_replay(path);
        let Some(h) = history_from_json(&doc["input"]) else { vcore::inconclusive("replay input is not a history") };
        let out = guard::guarded_run(h.0, &h.1, &Options::default());
        let r = judge(property, &report, &h, &out);
        report.case(Some("replay-marker-1"), &[]);
        report.case(Some("replay-marker-2"), &[]);
        if property == "C03" {
            if let Err(f) = miri::replay_under_miri(&report, std::slice::from_ref(&h)) {
                report.violation("replay-miri", &f, doc["input"].clone());
            }
        }
        if let Err(f) = r {
            harness_guard(&f);
            report.violation("replay", &f, doc["input"].clone());
        }
        report.finish();
    }

    report.run_regressions(|input| {
        let Some(h) = history_from_json(input) else { return Err(Fail::new("harness-internal:bad-regression-input", "not a history")) };
        // checked-in inputs run without any exclusion switch
        let out = guard::guarded_run(h.0, &h.1, &Options::default());
        judge(property, &report, &h, &out)
    });

    let gc_heavy = property == "C03";
    let cases = match property {
        "C01" => args.tier.pick(400_000, 3_000_000),
        "C02" => args.tier.pick(300_000, 3_000_000),
        _ => args.tier.pick(60_000, 1_200_000),
    };
    // a fixed worker count: the generated set is a function of (seed, tier) only, not of the
    // number of cores of the machine (each worker has its own derived seed)
    let workers = 8;
    let found = vcore::run_prop_parallel(
        &report,
        "histories",
        cases,
        workers,
        || history(gc_heavy, 40),
        |h: &History| {
            let out = run_one(h);
            judge(property, &report, h, &out)
        },
    );
    if let Some((h, fail)) = found {
        harness_guard(&fail);
        report.violation("history", &fail, history_json(&h));
    }
    report.unfreeze();

    if property == "C03" && report.violation_count() == 0 {
        miri::miri_tier(&report, args, &opts);
    }
    report.finish();
}

fn harness_guard(f: &Fail) {
    if f.signature.starts_with("harness-internal") {
        println!("harness-internal failure: {}\n{}", f.signature, f.message);
        vcore::inconclusive("the reference model and the interpreter disagree about the harness itself (not a verdict about pico)");
    }
}

#[allow(dead_code)]
fn tier_name(t: Tier) -> &'static str {
    t.as_str()
}
