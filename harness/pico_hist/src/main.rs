fn main() {
    vcore::inconclusive("pico_hist: not built yet");
}
