//! G-HIST: operation histories over a pico database, interpreted against BOTH the real pico
//! database and a plain-Rust reference model that never memoizes (C01, C02, C03).
//!
//! This file depends only on std + pico + pico_macros + tracing so that the very same interpreter
//! can be compiled into the tiny Miri replay binary (`pico_hist/miri`).
//!
//! Every memoized body is written ONCE as a generic function over the `Reader` trait. `P` (the pico
//! reader) implements it with tracked reads of the real database and calls of the real `#[memo]`
//! functions; `M` (the model reader) implements it over a `BTreeMap` of sources and evaluates
//! callees recursively from scratch, recording what was read.
//!
//! Documented preconditions respected by construction (they are pico's contract, not properties):
//! * no write while a memoized function runs;
//! * a `SourceId` is passed as an argument only while its source exists; a map entry is removed
//!   together with its source (what `IsographDatabase::remove_iso_literal` does), so a cached
//!   node with a `SourceId` parameter is never re-verified after its source is gone;
//! * `untracked()` map access only for a key that is present (pico/tests/tracking_field);
//! * a `MemoRef` of a `#[memo(raw)]` function that is a *parameter* is read with `lookup_tracked`
//!   (pico/tests/basic_multi_function_chain.rs), content-addressed interned refs with `lookup`;
//! * `RetainedQuery` is always cleared or made permanent;
//! * handles are looked up / retained only while the model says they are live (obtained after the
//!   last write, and from a GC root if a collection happened since).
#![allow(clippy::too_many_arguments)]

use std::cell::RefCell;
use std::collections::{BTreeMap, BTreeSet};
use std::panic::{AssertUnwindSafe, catch_unwind};
use std::rc::Rc;

use pico::{Database, MemoRef, RetainedQuery, SourceId, Storage, clear_retain, retain};
use pico_macros::{Db, Singleton, Source, memo};

pub type Val = Vec<i64>;

pub const KEYS: u8 = 3;

// ------------------------------------------------------------------------------------------------
// sources
// ------------------------------------------------------------------------------------------------

#[derive(Debug, Clone, PartialEq, Eq, Source)]
pub struct Num {
    #[key]
    pub key: u8,
    pub val: i32,
}

#[derive(Debug, Clone, PartialEq, Eq, Singleton)]
pub struct Cfg {
    pub val: i32,
}

#[derive(Debug, Clone, Copy, PartialEq, Eq, Hash, PartialOrd, Ord)]
pub struct Row {
    pub name: u8,
    pub score: i32,
}

#[derive(Default)]
pub struct IdMap(pub BTreeMap<u8, SourceId<Num>>);

#[derive(Db)]
pub struct TestDb {
    storage: Storage<Self>,
    #[tracked]
    map: IdMap,
    /// executions of every memoized body, per (function, arguments)
    counts: RefCell<BTreeMap<Node, u32>>,
}

impl TestDb {
    pub fn new(capacity: usize) -> Self {
        TestDb {
            storage: Storage::new_with_capacity(capacity.max(1).try_into().unwrap()),
            map: IdMap::default(),
            counts: RefCell::new(BTreeMap::new()),
        }
    }
    fn count(&self, n: Node) {
        *self.counts.borrow_mut().entry(n).or_insert(0) += 1;
    }
}

fn id_of(k: u8) -> SourceId<Num> {
    SourceId::new(&Num { key: k, val: 0 })
}

// ------------------------------------------------------------------------------------------------
// identities
// ------------------------------------------------------------------------------------------------

/// Identity of a `MemoRef<i32>` handle.
#[derive(Clone, Copy, Debug, PartialEq, Eq, PartialOrd, Ord, Hash)]
pub enum IntKey {
    CfgRaw,
    ValRaw(u8),
    SumRaw,
    /// `pair_parent(db, x)`: a raw parent whose children share its first parameter
    PairRaw(u8),
    Interned(i32),
}

impl IntKey {
    pub fn node(&self) -> Node {
        match *self {
            IntKey::CfgRaw => Node::CfgRaw,
            IntKey::ValRaw(k) => Node::ValRaw(k),
            IntKey::SumRaw => Node::SumRaw,
            IntKey::PairRaw(x) => Node::PairParent(x),
            IntKey::Interned(v) => Node::InternVal(v),
        }
    }
}

/// Identity of a derived node (function + arguments), as the model sees it.
#[derive(Clone, Debug, PartialEq, Eq, PartialOrd, Ord, Hash)]
pub enum Node {
    ValOf(u8),
    ValOfRef(u8),
    CfgOr,
    ClampOf(u8),
    SumTracked,
    UntrackedVal(u8),
    SumKeys(Vec<u8>),
    SumKeysRef(Vec<u8>),
    Branchy,
    CfgRaw,
    ValRaw(u8),
    SumRaw,
    DoubleRef(IntKey),
    DoubleRefB(IntKey),
    Quad,
    Rows,
    RowsB,
    RowRef(u8),
    RowRefB(u8),
    RowScore(u8),
    RowScoreB(u8),
    InternedCfg,
    UseInterned(IntKey),
    UseChain,
    RowParam(Row),
    KeysTotal,
    PairParent(u8),
    PairChild(u8, Vec<u8>),
    PairChildRef(u8, Vec<u8>),
    TripleChild(u8, u8, Vec<u8>),
    // leaves created by interning
    InternVal(i32),
    InternRow(Row),
}

impl Node {
    pub fn is_intern(&self) -> bool {
        matches!(self, Node::InternVal(_) | Node::InternRow(_))
    }
    /// key of the `SourceId` parameter, if the function has one
    pub fn source_param(&self) -> Option<u8> {
        match self {
            Node::ValOf(k) | Node::ValOfRef(k) | Node::ClampOf(k) | Node::ValRaw(k) => Some(*k),
            Node::DoubleRef(IntKey::ValRaw(k)) | Node::DoubleRefB(IntKey::ValRaw(k)) => Some(*k),
            _ => None,
        }
    }
}

// ------------------------------------------------------------------------------------------------
// the Reader abstraction and the bodies (written once)
// ------------------------------------------------------------------------------------------------

pub trait Reader {
    type IntH: Copy;
    type RowH: Copy;
    type Rows: std::ops::Deref<Target = Vec<Row>>;

    // source reads
    fn num(&self, k: u8) -> i32;
    fn cfg(&self) -> Option<i32>;
    fn tracked_keys(&self) -> Vec<u8>;
    fn tracked_has(&self, k: u8) -> bool;
    fn untracked_has(&self, k: u8) -> bool;

    // interning and handle reads
    fn intern_int(&self, v: i32) -> Self::IntH;
    fn intern_row_ref(&self, row: &Row) -> Self::RowH;
    fn int_lookup(&self, h: Self::IntH) -> i32;
    fn int_lookup_tracked(&self, h: Self::IntH) -> i32;
    fn row_lookup(&self, h: Self::RowH) -> Row;
    fn int_key(&self, h: Self::IntH) -> IntKey;

    // memoized functions
    fn val_of(&self, k: u8) -> i32;
    fn val_of_ref(&self, k: u8) -> i64;
    fn cfg_or(&self) -> i32;
    fn clamp_of(&self, k: u8) -> i32;
    fn sum_tracked(&self) -> i32;
    fn untracked_val(&self, k: u8) -> Option<i32>;
    fn sum_keys(&self, keys: Vec<u8>) -> i32;
    fn sum_keys_ref(&self, keys: &Vec<u8>) -> i64;
    fn branchy(&self) -> i32;
    fn cfg_raw(&self) -> Self::IntH;
    fn val_raw(&self, k: u8) -> Self::IntH;
    fn sum_raw(&self) -> Self::IntH;
    fn double_ref(&self, h: Self::IntH) -> i32;
    fn double_ref_b(&self, h: Self::IntH) -> i32;
    fn quad(&self) -> i32;
    fn rows(&self) -> Self::Rows;
    fn rows_b(&self) -> Self::Rows;
    fn row_ref(&self, name: u8) -> Option<Self::RowH>;
    fn row_ref_b(&self, name: u8) -> Option<Self::RowH>;
    fn row_score(&self, name: u8) -> i32;
    fn row_score_b(&self, name: u8) -> i32;
    fn interned_cfg(&self) -> Self::IntH;
    fn use_interned(&self, h: Self::IntH) -> i32;
    fn use_chain(&self) -> i32;
    fn row_param(&self, h: Self::RowH) -> i32;
    fn keys_total(&self) -> i64;
    fn pair_parent(&self, x: u8) -> Self::IntH;
    fn pair_child(&self, x: u8, ys: Vec<u8>) -> i32;
    fn pair_child_ref(&self, x: u8, ys: &Vec<u8>) -> i64;
    fn triple_child(&self, x: u8, y: u8, ys: Vec<u8>) -> i32;
}

fn b_val_of<R: Reader>(r: &R, k: u8) -> i32 {
    r.num(k)
}
fn b_val_of_ref<R: Reader>(r: &R, k: u8) -> i64 {
    r.num(k) as i64 * 10 + 1
}
fn b_cfg_or<R: Reader>(r: &R) -> i32 {
    r.cfg().unwrap_or(-100)
}
/// different inputs, equal outputs: the backdating case
fn b_clamp_of<R: Reader>(r: &R, k: u8) -> i32 {
    r.val_of(k).clamp(-1, 1)
}
/// iterates the tracked map; depth 3: sum_tracked -> clamp_of -> val_of -> source
fn b_sum_tracked<R: Reader>(r: &R) -> i32 {
    let keys = r.tracked_keys();
    let mut t = 100 * keys.len() as i32;
    for k in keys {
        t += r.clamp_of(k);
    }
    t
}
/// indexes the map untracked (only correct for a present key, see the module comment)
fn b_untracked_val<R: Reader>(r: &R, k: u8) -> Option<i32> {
    if r.untracked_has(k) { Some(r.num(k)) } else { None }
}
fn b_sum_keys<R: Reader>(r: &R, keys: &[u8]) -> i32 {
    let mut t = 0;
    for &k in keys {
        if r.tracked_has(k) {
            t += 7 + r.clamp_of(k);
        }
    }
    t
}
fn b_sum_keys_ref<R: Reader>(r: &R, keys: &[u8]) -> i64 {
    let mut t = 0;
    for &k in keys {
        if r.tracked_has(k) {
            t += r.val_of_ref(k);
        }
    }
    t
}
/// control flow depends on a source: the dependency set changes between runs
fn b_branchy<R: Reader>(r: &R) -> i32 {
    let c = r.cfg_or();
    if c >= 1 {
        r.sum_tracked()
    } else if c == 0 {
        if r.tracked_has(0) { r.val_of(0) } else { -5 }
    } else {
        -7
    }
}
fn b_cfg_raw<R: Reader>(r: &R) -> i32 {
    r.cfg().unwrap_or(-100) + 1000
}
fn b_val_raw<R: Reader>(r: &R, k: u8) -> i32 {
    r.num(k) + 2000
}
fn b_sum_raw<R: Reader>(r: &R) -> i32 {
    r.sum_tracked() * 10 + r.cfg_or().clamp(-1, 1)
}
fn b_double_ref<R: Reader>(r: &R, h: R::IntH) -> i32 {
    r.int_lookup_tracked(h) * 2
}
fn b_double_ref_b<R: Reader>(r: &R, h: R::IntH) -> i32 {
    r.int_lookup_tracked(h) * 3
}
fn b_quad<R: Reader>(r: &R) -> i32 {
    let h = r.cfg_raw();
    r.double_ref(h) * 2 + r.cfg_or()
}
fn b_rows<R: Reader>(r: &R) -> Vec<Row> {
    r.tracked_keys().into_iter().map(|k| Row { name: k, score: r.clamp_of(k) }).collect()
}
/// a second producer of rows whose values overlap with `rows` (equal values, other addresses)
fn b_rows_b<R: Reader>(r: &R) -> Vec<Row> {
    let c = r.cfg_or().clamp(-1, 1);
    vec![Row { name: 0, score: c }, Row { name: 1, score: 0 }, Row { name: 9, score: c }]
}
/// the `intern_ref` chain of the doc comment in database.rs
fn b_row_ref<R: Reader>(r: &R, name: u8) -> Option<R::RowH> {
    let rows = r.rows();
    rows.iter().find(|x| x.name == name).map(|row| r.intern_row_ref(row))
}
fn b_row_ref_b<R: Reader>(r: &R, name: u8) -> Option<R::RowH> {
    let rows = r.rows_b();
    rows.iter().find(|x| x.name == name).map(|row| r.intern_row_ref(row))
}
fn b_row_score<R: Reader>(r: &R, name: u8) -> i32 {
    r.row_ref(name).map(|h| r.row_lookup(h).score + 50).unwrap_or(-9)
}
fn b_row_score_b<R: Reader>(r: &R, name: u8) -> i32 {
    r.row_ref_b(name).map(|h| r.row_lookup(h).score + 60).unwrap_or(-9)
}
fn b_interned_cfg<R: Reader>(r: &R) -> R::IntH {
    r.intern_int(r.cfg_or().clamp(-1, 1))
}
fn b_use_interned<R: Reader>(r: &R, h: R::IntH) -> i32 {
    r.int_lookup(h) * 5 + r.cfg_or()
}
fn b_use_chain<R: Reader>(r: &R) -> i32 {
    let h = r.interned_cfg();
    r.use_interned(h) + 1
}
fn b_row_param<R: Reader>(r: &R, h: R::RowH) -> i32 {
    let row = r.row_lookup(h);
    row.score * 4 + row.name as i32
}

/// a parameterless parent of children with an owned and a borrowed non-source parameter: after a
/// collection the children can only be re-executed if their parameters were migrated
fn b_keys_total<R: Reader>(r: &R) -> i64 {
    r.sum_keys(vec![0, 1]) as i64 * 1000 + r.sum_keys_ref(&vec![1, 2])
}

/// A parent whose children take its own first parameter FIRST and further owned / borrowed
/// parameters after it; two siblings share (x, ys-prefix) shapes. After a collection that kept the
/// parent, the children can only be re-verified if ALL their parameters were carried over.
fn b_pair_parent<R: Reader>(r: &R, x: u8) -> i32 {
    let a = r.pair_child(x, vec![x % KEYS, 1]);
    let b = r.pair_child_ref(x, &vec![0, x % KEYS]);
    let c = r.triple_child(x, 1, vec![2, x % KEYS]);
    a + (b as i32) * 3 + c * 5
}
fn b_pair_child<R: Reader>(r: &R, x: u8, ys: &[u8]) -> i32 {
    x as i32 * 1000 + b_sum_keys(r, ys)
}
fn b_pair_child_ref<R: Reader>(r: &R, x: u8, ys: &[u8]) -> i64 {
    x as i64 * 7 + b_sum_keys_ref(r, ys)
}
fn b_triple_child<R: Reader>(r: &R, x: u8, y: u8, ys: &[u8]) -> i32 {
    let mut t = x as i32 * 31 + y as i32;
    for &k in ys {
        if r.tracked_has(k) {
            t += r.val_of(k) * 11;
        }
    }
    t
}

// ------------------------------------------------------------------------------------------------
// the real memoized functions
// ------------------------------------------------------------------------------------------------

#[memo]
fn val_of(db: &TestDb, id: SourceId<Num>) -> i32 {
    let k = key_of(id);
    db.count(Node::ValOf(k));
    b_val_of(&P(db), k)
}
#[memo]
fn val_of_ref(db: &TestDb, id: &SourceId<Num>) -> i64 {
    let k = key_of(*id);
    db.count(Node::ValOfRef(k));
    b_val_of_ref(&P(db), k)
}
#[memo]
fn cfg_or(db: &TestDb) -> i32 {
    db.count(Node::CfgOr);
    b_cfg_or(&P(db))
}
#[memo]
fn clamp_of(db: &TestDb, id: SourceId<Num>) -> i32 {
    let k = key_of(id);
    db.count(Node::ClampOf(k));
    b_clamp_of(&P(db), k)
}
#[memo]
fn sum_tracked(db: &TestDb) -> i32 {
    db.count(Node::SumTracked);
    b_sum_tracked(&P(db))
}
#[memo]
fn untracked_val(db: &TestDb, k: u8) -> Option<i32> {
    db.count(Node::UntrackedVal(k));
    b_untracked_val(&P(db), k)
}
#[memo]
fn sum_keys(db: &TestDb, keys: Vec<u8>) -> i32 {
    db.count(Node::SumKeys(keys.clone()));
    b_sum_keys(&P(db), &keys)
}
#[memo]
fn sum_keys_ref(db: &TestDb, keys: &Vec<u8>) -> i64 {
    db.count(Node::SumKeysRef(keys.clone()));
    b_sum_keys_ref(&P(db), keys)
}
#[memo]
fn branchy(db: &TestDb) -> i32 {
    db.count(Node::Branchy);
    b_branchy(&P(db))
}
#[memo(raw)]
fn cfg_raw(db: &TestDb) -> i32 {
    db.count(Node::CfgRaw);
    b_cfg_raw(&P(db))
}
#[memo(raw)]
fn val_raw(db: &TestDb, id: SourceId<Num>) -> i32 {
    let k = key_of(id);
    db.count(Node::ValRaw(k));
    b_val_raw(&P(db), k)
}
#[memo(raw)]
fn sum_raw(db: &TestDb) -> i32 {
    db.count(Node::SumRaw);
    b_sum_raw(&P(db))
}
#[memo]
fn double_ref(db: &TestDb, h: MemoRef<i32>) -> i32 {
    let p = P(db);
    db.count(Node::DoubleRef(p.int_key(h)));
    b_double_ref(&p, h)
}
#[memo]
fn double_ref_b(db: &TestDb, h: &MemoRef<i32>) -> i32 {
    let p = P(db);
    db.count(Node::DoubleRefB(p.int_key(*h)));
    b_double_ref_b(&p, *h)
}
#[memo]
fn quad(db: &TestDb) -> i32 {
    db.count(Node::Quad);
    b_quad(&P(db))
}
#[memo]
fn rows(db: &TestDb) -> Vec<Row> {
    db.count(Node::Rows);
    b_rows(&P(db))
}
#[memo]
fn rows_b(db: &TestDb) -> Vec<Row> {
    db.count(Node::RowsB);
    b_rows_b(&P(db))
}
#[memo]
fn row_ref(db: &TestDb, name: u8) -> Option<MemoRef<Row>> {
    db.count(Node::RowRef(name));
    b_row_ref(&P(db), name)
}
#[memo]
fn row_ref_b(db: &TestDb, name: u8) -> Option<MemoRef<Row>> {
    db.count(Node::RowRefB(name));
    b_row_ref_b(&P(db), name)
}
#[memo]
fn row_score(db: &TestDb, name: u8) -> i32 {
    db.count(Node::RowScore(name));
    b_row_score(&P(db), name)
}
#[memo]
fn row_score_b(db: &TestDb, name: u8) -> i32 {
    db.count(Node::RowScoreB(name));
    b_row_score_b(&P(db), name)
}
#[memo]
fn interned_cfg(db: &TestDb) -> MemoRef<i32> {
    db.count(Node::InternedCfg);
    b_interned_cfg(&P(db))
}
#[memo]
fn use_interned(db: &TestDb, h: MemoRef<i32>) -> i32 {
    let p = P(db);
    db.count(Node::UseInterned(p.int_key(h)));
    b_use_interned(&p, h)
}
#[memo]
fn use_chain(db: &TestDb) -> i32 {
    db.count(Node::UseChain);
    b_use_chain(&P(db))
}
#[memo]
fn row_param(db: &TestDb, h: MemoRef<Row>) -> i32 {
    let p = P(db);
    db.count(Node::RowParam(p.row_lookup(h)));
    b_row_param(&p, h)
}

#[memo]
fn keys_total(db: &TestDb) -> i64 {
    db.count(Node::KeysTotal);
    b_keys_total(&P(db))
}

#[memo(raw)]
fn pair_parent(db: &TestDb, x: u8) -> i32 {
    db.count(Node::PairParent(x));
    b_pair_parent(&P(db), x)
}
#[memo]
fn pair_child(db: &TestDb, x: u8, ys: Vec<u8>) -> i32 {
    db.count(Node::PairChild(x, ys.clone()));
    b_pair_child(&P(db), x, &ys)
}
#[memo]
fn pair_child_ref(db: &TestDb, x: u8, ys: &Vec<u8>) -> i64 {
    db.count(Node::PairChildRef(x, ys.clone()));
    b_pair_child_ref(&P(db), x, ys)
}
#[memo]
fn triple_child(db: &TestDb, x: u8, y: u8, ys: Vec<u8>) -> i32 {
    db.count(Node::TripleChild(x, y, ys.clone()));
    b_triple_child(&P(db), x, y, &ys)
}

/// `SourceId` -> small key, without touching the database (so it registers no dependency).
fn key_of(id: SourceId<Num>) -> u8 {
    (0..=255u8).find(|k| id_of(*k) == id).expect("SourceId of a Num key")
}

// ------------------------------------------------------------------------------------------------
// the pico reader
// ------------------------------------------------------------------------------------------------

pub struct P<'db>(pub &'db TestDb);

/// What a `MemoRef<i32>` handle denotes is decided by the harness when it obtains the handle; inside
/// a memoized body it is recovered by comparing with freshly built handles of the same identity
/// (MemoRef equality is identity equality). Building them registers nothing new: `cfg_raw`/`sum_raw`
/// are only compared when the handle is not an interned one.
impl<'db> P<'db> {
    fn int_key_of(&self, h: MemoRef<i32>) -> IntKey {
        HANDLE_KEYS.with(|m| {
            *m.borrow().get(&handle_id(h)).expect("harness: handle identity was registered when obtained")
        })
    }
}

thread_local! {
    /// handle identity (Debug rendering of the MemoRef's node id) -> what it denotes
    static HANDLE_KEYS: RefCell<BTreeMap<String, IntKey>> = const { RefCell::new(BTreeMap::new()) };
}

fn handle_id(h: MemoRef<i32>) -> String {
    // MemoRef's derived_node_id is crate-private; Debug prints it. Strip the kind so that the
    // identity survives the Value/RawPtr distinction.
    let s = format!("{h:?}");
    match s.find("kind") {
        Some(i) => s[..i].to_string(),
        None => s,
    }
}

fn register_handle(h: MemoRef<i32>, key: IntKey) -> MemoRef<i32> {
    HANDLE_KEYS.with(|m| {
        m.borrow_mut().insert(handle_id(h), key);
    });
    h
}

impl<'db> Reader for P<'db> {
    type IntH = MemoRef<i32>;
    type RowH = MemoRef<Row>;
    type Rows = &'db Vec<Row>;

    fn num(&self, k: u8) -> i32 {
        self.0.get(id_of(k)).val
    }
    fn cfg(&self) -> Option<i32> {
        self.0.get_singleton::<Cfg>().map(|c| c.val)
    }
    fn tracked_keys(&self) -> Vec<u8> {
        self.0.get_map().tracked().0.keys().copied().collect()
    }
    fn tracked_has(&self, k: u8) -> bool {
        self.0.get_map().tracked().0.contains_key(&k)
    }
    fn untracked_has(&self, k: u8) -> bool {
        self.0.get_map().untracked().0.contains_key(&k)
    }
    fn intern_int(&self, v: i32) -> MemoRef<i32> {
        register_handle(self.0.intern_value(v), IntKey::Interned(v))
    }
    fn intern_row_ref(&self, row: &Row) -> MemoRef<Row> {
        self.0.intern_ref(row)
    }
    fn int_lookup(&self, h: MemoRef<i32>) -> i32 {
        *h.lookup(self.0)
    }
    fn int_lookup_tracked(&self, h: MemoRef<i32>) -> i32 {
        *h.lookup_tracked(self.0)
    }
    fn row_lookup(&self, h: MemoRef<Row>) -> Row {
        *h.lookup(self.0)
    }
    fn int_key(&self, h: MemoRef<i32>) -> IntKey {
        self.int_key_of(h)
    }
    fn val_of(&self, k: u8) -> i32 {
        *val_of(self.0, id_of(k))
    }
    fn val_of_ref(&self, k: u8) -> i64 {
        *val_of_ref(self.0, &id_of(k))
    }
    fn cfg_or(&self) -> i32 {
        *cfg_or(self.0)
    }
    fn clamp_of(&self, k: u8) -> i32 {
        *clamp_of(self.0, id_of(k))
    }
    fn sum_tracked(&self) -> i32 {
        *sum_tracked(self.0)
    }
    fn untracked_val(&self, k: u8) -> Option<i32> {
        *untracked_val(self.0, k)
    }
    fn sum_keys(&self, keys: Vec<u8>) -> i32 {
        *sum_keys(self.0, keys)
    }
    fn sum_keys_ref(&self, keys: &Vec<u8>) -> i64 {
        *sum_keys_ref(self.0, keys)
    }
    fn branchy(&self) -> i32 {
        *branchy(self.0)
    }
    fn cfg_raw(&self) -> MemoRef<i32> {
        register_handle(cfg_raw(self.0), IntKey::CfgRaw)
    }
    fn val_raw(&self, k: u8) -> MemoRef<i32> {
        register_handle(val_raw(self.0, id_of(k)), IntKey::ValRaw(k))
    }
    fn sum_raw(&self) -> MemoRef<i32> {
        register_handle(sum_raw(self.0), IntKey::SumRaw)
    }
    fn double_ref(&self, h: MemoRef<i32>) -> i32 {
        *double_ref(self.0, h)
    }
    fn double_ref_b(&self, h: MemoRef<i32>) -> i32 {
        *double_ref_b(self.0, &h)
    }
    fn quad(&self) -> i32 {
        *quad(self.0)
    }
    fn rows(&self) -> &'db Vec<Row> {
        rows(self.0)
    }
    fn rows_b(&self) -> &'db Vec<Row> {
        rows_b(self.0)
    }
    fn row_ref(&self, name: u8) -> Option<MemoRef<Row>> {
        *row_ref(self.0, name)
    }
    fn row_ref_b(&self, name: u8) -> Option<MemoRef<Row>> {
        *row_ref_b(self.0, name)
    }
    fn row_score(&self, name: u8) -> i32 {
        *row_score(self.0, name)
    }
    fn row_score_b(&self, name: u8) -> i32 {
        *row_score_b(self.0, name)
    }
    fn interned_cfg(&self) -> MemoRef<i32> {
        let h = *interned_cfg(self.0);
        // the value behind it is known only by reading it; reading untracked registers nothing
        let v = *h.lookup(self.0);
        register_handle(h, IntKey::Interned(v))
    }
    fn use_interned(&self, h: MemoRef<i32>) -> i32 {
        *use_interned(self.0, h)
    }
    fn use_chain(&self) -> i32 {
        *use_chain(self.0)
    }
    fn row_param(&self, h: MemoRef<Row>) -> i32 {
        *row_param(self.0, h)
    }
    fn keys_total(&self) -> i64 {
        *keys_total(self.0)
    }
    fn pair_parent(&self, x: u8) -> MemoRef<i32> {
        register_handle(pair_parent(self.0, x), IntKey::PairRaw(x))
    }
    fn pair_child(&self, x: u8, ys: Vec<u8>) -> i32 {
        *pair_child(self.0, x, ys)
    }
    fn pair_child_ref(&self, x: u8, ys: &Vec<u8>) -> i64 {
        *pair_child_ref(self.0, x, ys)
    }
    fn triple_child(&self, x: u8, y: u8, ys: Vec<u8>) -> i32 {
        *triple_child(self.0, x, y, ys)
    }
}

// ------------------------------------------------------------------------------------------------
// the model: plain data, from-scratch evaluation, read tracing
// ------------------------------------------------------------------------------------------------

#[derive(Clone, Copy, Debug, PartialEq, Eq, PartialOrd, Ord, Hash)]
pub enum Src {
    Num(u8),
    Cfg,
    Counter,
}

#[derive(Clone, Debug, PartialEq, Eq, PartialOrd, Ord)]
pub enum Dep {
    Src(Src),
    Node(Node),
}

#[derive(Default, Clone, Debug)]
pub struct State {
    pub nums: BTreeMap<u8, i32>,
    pub cfg: Option<i32>,
    pub map: BTreeSet<u8>,
    pub counter: Option<u64>,
}

#[derive(Default, Debug)]
struct Frame {
    deps: Vec<Dep>,
    srcs: BTreeSet<Src>,
    nodes: BTreeSet<Node>,
}

#[derive(Clone, Copy, Debug)]
pub struct MInt {
    key: IntKey,
    val: i32,
}

pub struct M<'a> {
    st: &'a State,
    frames: RefCell<Vec<Frame>>,
    root: RefCell<Option<Frame>>,
}

impl<'a> M<'a> {
    pub fn new(st: &'a State) -> Self {
        M { st, frames: RefCell::new(vec![]), root: RefCell::new(None) }
    }
    fn read(&self, s: Src) {
        if let Some(f) = self.frames.borrow_mut().last_mut() {
            if f.deps.last() != Some(&Dep::Src(s)) {
                f.deps.push(Dep::Src(s));
            }
            f.srcs.insert(s);
        }
    }
    fn dep_node(&self, n: Node) {
        if let Some(f) = self.frames.borrow_mut().last_mut() {
            if f.deps.last() != Some(&Dep::Node(n.clone())) {
                f.deps.push(Dep::Node(n.clone()));
            }
            f.nodes.insert(n);
        }
    }
    fn call<T>(&self, n: Node, body: impl FnOnce(&Self) -> T) -> T {
        self.dep_node(n.clone());
        self.frames.borrow_mut().push(Frame::default());
        let v = body(self);
        let done = self.frames.borrow_mut().pop().unwrap();
        let mut frames = self.frames.borrow_mut();
        if let Some(parent) = frames.last_mut() {
            parent.srcs.extend(done.srcs.iter().copied());
            parent.nodes.extend(done.nodes.iter().cloned());
        } else {
            *self.root.borrow_mut() = Some(done);
        }
        v
    }
}

impl<'a> Reader for M<'a> {
    type IntH = MInt;
    type RowH = Row;
    type Rows = Rc<Vec<Row>>;

    fn num(&self, k: u8) -> i32 {
        self.read(Src::Num(k));
        *self.st.nums.get(&k).expect("harness: body read a keyed source that does not exist")
    }
    fn cfg(&self) -> Option<i32> {
        self.read(Src::Cfg);
        self.st.cfg
    }
    fn tracked_keys(&self) -> Vec<u8> {
        self.read(Src::Counter);
        self.st.map.iter().copied().collect()
    }
    fn tracked_has(&self, k: u8) -> bool {
        self.read(Src::Counter);
        self.st.map.contains(&k)
    }
    fn untracked_has(&self, k: u8) -> bool {
        self.st.map.contains(&k)
    }
    fn intern_int(&self, v: i32) -> MInt {
        self.dep_node(Node::InternVal(v));
        MInt { key: IntKey::Interned(v), val: v }
    }
    fn intern_row_ref(&self, row: &Row) -> Row {
        self.dep_node(Node::InternRow(*row));
        *row
    }
    fn int_lookup(&self, h: MInt) -> i32 {
        h.val
    }
    fn int_lookup_tracked(&self, h: MInt) -> i32 {
        // a tracked read of a memoized node: a dependency on that node and on what it read
        match h.key {
            IntKey::CfgRaw => self.call(Node::CfgRaw, |m| b_cfg_raw(m)),
            IntKey::ValRaw(k) => self.call(Node::ValRaw(k), |m| b_val_raw(m, k)),
            IntKey::SumRaw => self.call(Node::SumRaw, |m| b_sum_raw(m)),
            IntKey::PairRaw(x) => self.call(Node::PairParent(x), |m| b_pair_parent(m, x)),
            IntKey::Interned(v) => {
                self.dep_node(Node::InternVal(v));
                v
            }
        }
    }
    fn row_lookup(&self, h: Row) -> Row {
        h
    }
    fn int_key(&self, h: MInt) -> IntKey {
        h.key
    }
    fn val_of(&self, k: u8) -> i32 {
        self.call(Node::ValOf(k), |m| b_val_of(m, k))
    }
    fn val_of_ref(&self, k: u8) -> i64 {
        self.call(Node::ValOfRef(k), |m| b_val_of_ref(m, k))
    }
    fn cfg_or(&self) -> i32 {
        self.call(Node::CfgOr, |m| b_cfg_or(m))
    }
    fn clamp_of(&self, k: u8) -> i32 {
        self.call(Node::ClampOf(k), |m| b_clamp_of(m, k))
    }
    fn sum_tracked(&self) -> i32 {
        self.call(Node::SumTracked, |m| b_sum_tracked(m))
    }
    fn untracked_val(&self, k: u8) -> Option<i32> {
        self.call(Node::UntrackedVal(k), |m| b_untracked_val(m, k))
    }
    fn sum_keys(&self, keys: Vec<u8>) -> i32 {
        self.call(Node::SumKeys(keys.clone()), |m| b_sum_keys(m, &keys))
    }
    fn sum_keys_ref(&self, keys: &Vec<u8>) -> i64 {
        self.call(Node::SumKeysRef(keys.clone()), |m| b_sum_keys_ref(m, keys))
    }
    fn branchy(&self) -> i32 {
        self.call(Node::Branchy, |m| b_branchy(m))
    }
    fn cfg_raw(&self) -> MInt {
        let val = self.call(Node::CfgRaw, |m| b_cfg_raw(m));
        MInt { key: IntKey::CfgRaw, val }
    }
    fn val_raw(&self, k: u8) -> MInt {
        let val = self.call(Node::ValRaw(k), |m| b_val_raw(m, k));
        MInt { key: IntKey::ValRaw(k), val }
    }
    fn sum_raw(&self) -> MInt {
        let val = self.call(Node::SumRaw, |m| b_sum_raw(m));
        MInt { key: IntKey::SumRaw, val }
    }
    fn double_ref(&self, h: MInt) -> i32 {
        self.call(Node::DoubleRef(h.key), |m| b_double_ref(m, h))
    }
    fn double_ref_b(&self, h: MInt) -> i32 {
        self.call(Node::DoubleRefB(h.key), |m| b_double_ref_b(m, h))
    }
    fn quad(&self) -> i32 {
        self.call(Node::Quad, |m| b_quad(m))
    }
    fn rows(&self) -> Rc<Vec<Row>> {
        Rc::new(self.call(Node::Rows, |m| b_rows(m)))
    }
    fn rows_b(&self) -> Rc<Vec<Row>> {
        Rc::new(self.call(Node::RowsB, |m| b_rows_b(m)))
    }
    fn row_ref(&self, name: u8) -> Option<Row> {
        self.call(Node::RowRef(name), |m| b_row_ref(m, name))
    }
    fn row_ref_b(&self, name: u8) -> Option<Row> {
        self.call(Node::RowRefB(name), |m| b_row_ref_b(m, name))
    }
    fn row_score(&self, name: u8) -> i32 {
        self.call(Node::RowScore(name), |m| b_row_score(m, name))
    }
    fn row_score_b(&self, name: u8) -> i32 {
        self.call(Node::RowScoreB(name), |m| b_row_score_b(m, name))
    }
    fn interned_cfg(&self) -> MInt {
        self.call(Node::InternedCfg, |m| b_interned_cfg(m))
    }
    fn use_interned(&self, h: MInt) -> i32 {
        self.call(Node::UseInterned(h.key), |m| b_use_interned(m, h))
    }
    fn use_chain(&self) -> i32 {
        self.call(Node::UseChain, |m| b_use_chain(m))
    }
    fn row_param(&self, h: Row) -> i32 {
        self.call(Node::RowParam(h), |m| b_row_param(m, h))
    }
    fn keys_total(&self) -> i64 {
        self.call(Node::KeysTotal, |m| b_keys_total(m))
    }
    fn pair_parent(&self, x: u8) -> MInt {
        let val = self.call(Node::PairParent(x), |m| b_pair_parent(m, x));
        MInt { key: IntKey::PairRaw(x), val }
    }
    fn pair_child(&self, x: u8, ys: Vec<u8>) -> i32 {
        self.call(Node::PairChild(x, ys.clone()), |m| b_pair_child(m, x, &ys))
    }
    fn pair_child_ref(&self, x: u8, ys: &Vec<u8>) -> i64 {
        self.call(Node::PairChildRef(x, ys.clone()), |m| b_pair_child_ref(m, x, ys))
    }
    fn triple_child(&self, x: u8, y: u8, ys: Vec<u8>) -> i32 {
        self.call(Node::TripleChild(x, y, ys.clone()), |m| b_triple_child(m, x, y, &ys))
    }
}

// ------------------------------------------------------------------------------------------------
// operations
// ------------------------------------------------------------------------------------------------

/// What a top-level `Call` does. Handles that are arguments are obtained in the same step (that is
/// what real callers do: `let r = first_letter(db, id); consume(db, r)`).
#[derive(Clone, Debug, PartialEq, Eq)]
pub enum CallSpec {
    ValOf(u8),
    ValOfRef(u8),
    CfgOr,
    ClampOf(u8),
    SumTracked,
    UntrackedVal(u8),
    SumKeys(Vec<u8>),
    SumKeysRef(Vec<u8>),
    Branchy,
    CfgRaw,
    ValRaw(u8),
    SumRaw,
    DoubleRef(IntKey),
    DoubleRefB(IntKey),
    Quad,
    Rows,
    RowsB,
    RowRef(u8),
    RowRefB(u8),
    RowScore(u8),
    RowScoreB(u8),
    InternedCfg,
    UseInterned(i32),
    UseChain,
    /// `row_ref(name)` (or `row_ref_b` when `b`) then `row_param(handle)`
    RowParamVia(u8, bool),
    KeysTotal,
    PairRaw(u8),
    PairChild(u8, Vec<u8>),
    PairChildRef(u8, Vec<u8>),
    TripleChild(u8, u8, Vec<u8>),
}

#[derive(Clone, Debug, PartialEq, Eq)]
pub enum RawFn {
    CfgRaw,
    ValRaw(u8),
    SumRaw,
    PairRaw(u8),
}

#[derive(Clone, Debug, PartialEq, Eq)]
pub enum Op {
    Set(u8, i32),
    Remove(u8),
    SetCfg(i32),
    RemoveCfg,
    TrackedInsert(u8),
    TrackedRemove(u8),
    Call(CallSpec),
    InternValue(i32),
    Lookup(u16),
    Retain(RawFn),
    RetainHandle(u16),
    ClearRetain(u16),
    NeverGc(u16),
    Gc,
}

fn keys_str(v: &[u8]) -> String {
    if v.is_empty() {
        "-".to_string()
    } else {
        v.iter().map(|k| k.to_string()).collect::<Vec<_>>().join(",")
    }
}
fn parse_keys(s: &str) -> Option<Vec<u8>> {
    if s == "-" {
        return Some(vec![]);
    }
    s.split(',').map(|x| x.parse().ok()).collect()
}
fn intkey_str(k: &IntKey) -> String {
    match k {
        IntKey::CfgRaw => "cfgraw".into(),
        IntKey::ValRaw(k) => format!("valraw:{k}"),
        IntKey::SumRaw => "sumraw".into(),
        IntKey::PairRaw(x) => format!("pairraw:{x}"),
        IntKey::Interned(v) => format!("int:{v}"),
    }
}
fn parse_intkey(s: &str) -> Option<IntKey> {
    if s == "cfgraw" {
        Some(IntKey::CfgRaw)
    } else if s == "sumraw" {
        Some(IntKey::SumRaw)
    } else if let Some(k) = s.strip_prefix("valraw:") {
        Some(IntKey::ValRaw(k.parse().ok()?))
    } else if let Some(x) = s.strip_prefix("pairraw:") {
        Some(IntKey::PairRaw(x.parse().ok()?))
    } else if let Some(v) = s.strip_prefix("int:") {
        Some(IntKey::Interned(v.parse().ok()?))
    } else {
        None
    }
}

impl CallSpec {
    pub fn encode(&self) -> String {
        use CallSpec::*;
        match self {
            ValOf(k) => format!("val_of {k}"),
            ValOfRef(k) => format!("val_of_ref {k}"),
            CfgOr => "cfg_or".into(),
            ClampOf(k) => format!("clamp_of {k}"),
            SumTracked => "sum_tracked".into(),
            UntrackedVal(k) => format!("untracked_val {k}"),
            SumKeys(v) => format!("sum_keys {}", keys_str(v)),
            SumKeysRef(v) => format!("sum_keys_ref {}", keys_str(v)),
            Branchy => "branchy".into(),
            CfgRaw => "cfg_raw".into(),
            ValRaw(k) => format!("val_raw {k}"),
            SumRaw => "sum_raw".into(),
            DoubleRef(h) => format!("double_ref {}", intkey_str(h)),
            DoubleRefB(h) => format!("double_ref_b {}", intkey_str(h)),
            Quad => "quad".into(),
            Rows => "rows".into(),
            RowsB => "rows_b".into(),
            RowRef(n) => format!("row_ref {n}"),
            RowRefB(n) => format!("row_ref_b {n}"),
            RowScore(n) => format!("row_score {n}"),
            RowScoreB(n) => format!("row_score_b {n}"),
            InternedCfg => "interned_cfg".into(),
            UseInterned(v) => format!("use_interned {v}"),
            UseChain => "use_chain".into(),
            RowParamVia(n, b) => format!("row_param_via {n} {}", if *b { "b" } else { "a" }),
            KeysTotal => "keys_total".into(),
            PairRaw(x) => format!("pair_parent {x}"),
            PairChild(x, ys) => format!("pair_child {x} {}", keys_str(ys)),
            PairChildRef(x, ys) => format!("pair_child_ref {x} {}", keys_str(ys)),
            TripleChild(x, y, ys) => format!("triple_child {x} {y} {}", keys_str(ys)),
        }
    }
    pub fn decode(w: &[&str]) -> Option<CallSpec> {
        use CallSpec::*;
        let a = |i: usize| w.get(i).copied();
        let k = |i: usize| a(i).and_then(|s| s.parse::<u8>().ok());
        Some(match *w.first()? {
            "val_of" => ValOf(k(1)?),
            "val_of_ref" => ValOfRef(k(1)?),
            "cfg_or" => CfgOr,
            "clamp_of" => ClampOf(k(1)?),
            "sum_tracked" => SumTracked,
            "untracked_val" => UntrackedVal(k(1)?),
            "sum_keys" => SumKeys(parse_keys(a(1)?)?),
            "sum_keys_ref" => SumKeysRef(parse_keys(a(1)?)?),
            "branchy" => Branchy,
            "cfg_raw" => CfgRaw,
            "val_raw" => ValRaw(k(1)?),
            "sum_raw" => SumRaw,
            "double_ref" => DoubleRef(parse_intkey(a(1)?)?),
            "double_ref_b" => DoubleRefB(parse_intkey(a(1)?)?),
            "quad" => Quad,
            "rows" => Rows,
            "rows_b" => RowsB,
            "row_ref" => RowRef(k(1)?),
            "row_ref_b" => RowRefB(k(1)?),
            "row_score" => RowScore(k(1)?),
            "row_score_b" => RowScoreB(k(1)?),
            "interned_cfg" => InternedCfg,
            "use_interned" => UseInterned(a(1)?.parse().ok()?),
            "use_chain" => UseChain,
            "row_param_via" => RowParamVia(k(1)?, a(2)? == "b"),
            "keys_total" => KeysTotal,
            "pair_parent" => PairRaw(k(1)?),
            "pair_child" => PairChild(k(1)?, parse_keys(a(2)?)?),
            "pair_child_ref" => PairChildRef(k(1)?, parse_keys(a(2)?)?),
            "triple_child" => TripleChild(k(1)?, k(2)?, parse_keys(a(3)?)?),
            _ => return None,
        })
    }
    /// key of a keyed source that must exist for the call to be inside pico's contract
    fn needs_source(&self) -> Option<u8> {
        use CallSpec::*;
        match self {
            ValOf(k) | ValOfRef(k) | ClampOf(k) | ValRaw(k) => Some(*k),
            DoubleRef(IntKey::ValRaw(k)) | DoubleRefB(IntKey::ValRaw(k)) => Some(*k),
            _ => None,
        }
    }
}

impl Op {
    pub fn encode(&self) -> String {
        match self {
            Op::Set(k, v) => format!("set {k} {v}"),
            Op::Remove(k) => format!("rm {k}"),
            Op::SetCfg(v) => format!("setcfg {v}"),
            Op::RemoveCfg => "rmcfg".into(),
            Op::TrackedInsert(k) => format!("tins {k}"),
            Op::TrackedRemove(k) => format!("trm {k}"),
            Op::Call(c) => format!("call {}", c.encode()),
            Op::InternValue(v) => format!("intern {v}"),
            Op::Lookup(i) => format!("lookup {i}"),
            Op::Retain(RawFn::CfgRaw) => "retain cfg_raw".into(),
            Op::Retain(RawFn::SumRaw) => "retain sum_raw".into(),
            Op::Retain(RawFn::ValRaw(k)) => format!("retain val_raw {k}"),
            Op::Retain(RawFn::PairRaw(x)) => format!("retain pair_parent {x}"),
            Op::RetainHandle(i) => format!("retainh {i}"),
            Op::ClearRetain(i) => format!("clear {i}"),
            Op::NeverGc(i) => format!("never {i}"),
            Op::Gc => "gc".into(),
        }
    }
    pub fn decode(s: &str) -> Option<Op> {
        let w: Vec<&str> = s.split_whitespace().collect();
        let a = |i: usize| w.get(i).copied();
        Some(match *w.first()? {
            "set" => Op::Set(a(1)?.parse().ok()?, a(2)?.parse().ok()?),
            "rm" => Op::Remove(a(1)?.parse().ok()?),
            "setcfg" => Op::SetCfg(a(1)?.parse().ok()?),
            "rmcfg" => Op::RemoveCfg,
            "tins" => Op::TrackedInsert(a(1)?.parse().ok()?),
            "trm" => Op::TrackedRemove(a(1)?.parse().ok()?),
            "call" => Op::Call(CallSpec::decode(&w[1..])?),
            "intern" => Op::InternValue(a(1)?.parse().ok()?),
            "lookup" => Op::Lookup(a(1)?.parse().ok()?),
            "retain" => Op::Retain(match a(1)? {
                "cfg_raw" => RawFn::CfgRaw,
                "sum_raw" => RawFn::SumRaw,
                "val_raw" => RawFn::ValRaw(a(2)?.parse().ok()?),
                "pair_parent" => RawFn::PairRaw(a(2)?.parse().ok()?),
                _ => return None,
            }),
            "retainh" => Op::RetainHandle(a(1)?.parse().ok()?),
            "clear" => Op::ClearRetain(a(1)?.parse().ok()?),
            "never" => Op::NeverGc(a(1)?.parse().ok()?),
            "gc" => Op::Gc,
            _ => return None,
        })
    }
    pub fn is_write(&self) -> bool {
        matches!(
            self,
            Op::Set(..) | Op::Remove(_) | Op::SetCfg(_) | Op::RemoveCfg | Op::TrackedInsert(_) | Op::TrackedRemove(_)
        )
    }
}

pub fn encode_history(cap: usize, ops: &[Op]) -> String {
    format!("{cap}|{}", ops.iter().map(|o| o.encode()).collect::<Vec<_>>().join(";"))
}

pub fn decode_history(line: &str) -> Option<(usize, Vec<Op>)> {
    let (cap, rest) = line.split_once('|')?;
    let cap = cap.trim().parse().ok()?;
    let mut ops = vec![];
    for part in rest.split(';') {
        let part = part.trim();
        if part.is_empty() {
            continue;
        }
        ops.push(Op::decode(part)?);
    }
    Some((cap, ops))
}

// ------------------------------------------------------------------------------------------------
// performing a call against either reader
// ------------------------------------------------------------------------------------------------

#[derive(Clone, Debug)]
pub enum HandleOut<I, R> {
    Int(I, IntKey),
    Row(R, Row),
}

/// Result of one top-level call: the normalised value, the top-level memoized calls it made (in
/// order; these are what pico's LRU sees) and the handles it produced.
pub struct Performed<I, R> {
    pub val: Val,
    pub top: Vec<Node>,
    pub handles: Vec<HandleOut<I, R>>,
}

fn obtain_int<R: Reader>(r: &R, key: IntKey, top: &mut Vec<Node>) -> R::IntH {
    match key {
        IntKey::CfgRaw => {
            top.push(Node::CfgRaw);
            r.cfg_raw()
        }
        IntKey::ValRaw(k) => {
            top.push(Node::ValRaw(k));
            r.val_raw(k)
        }
        IntKey::SumRaw => {
            top.push(Node::SumRaw);
            r.sum_raw()
        }
        IntKey::PairRaw(x) => {
            top.push(Node::PairParent(x));
            r.pair_parent(x)
        }
        IntKey::Interned(v) => r.intern_int(v),
    }
}

pub fn perform<R: Reader>(r: &R, spec: &CallSpec) -> Performed<R::IntH, R::RowH> {
    use CallSpec::*;
    let mut top = vec![];
    let mut handles = vec![];
    let val: Val = match spec {
        ValOf(k) => {
            top.push(Node::ValOf(*k));
            vec![r.val_of(*k) as i64]
        }
        ValOfRef(k) => {
            top.push(Node::ValOfRef(*k));
            vec![r.val_of_ref(*k)]
        }
        CfgOr => {
            top.push(Node::CfgOr);
            vec![r.cfg_or() as i64]
        }
        ClampOf(k) => {
            top.push(Node::ClampOf(*k));
            vec![r.clamp_of(*k) as i64]
        }
        SumTracked => {
            top.push(Node::SumTracked);
            vec![r.sum_tracked() as i64]
        }
        UntrackedVal(k) => {
            top.push(Node::UntrackedVal(*k));
            r.untracked_val(*k).map(|v| v as i64).into_iter().collect()
        }
        SumKeys(keys) => {
            top.push(Node::SumKeys(keys.clone()));
            vec![r.sum_keys(keys.clone()) as i64]
        }
        SumKeysRef(keys) => {
            top.push(Node::SumKeysRef(keys.clone()));
            vec![r.sum_keys_ref(keys)]
        }
        Branchy => {
            top.push(Node::Branchy);
            vec![r.branchy() as i64]
        }
        CfgRaw | ValRaw(_) | SumRaw | PairRaw(_) => {
            let key = match spec {
                CfgRaw => IntKey::CfgRaw,
                ValRaw(k) => IntKey::ValRaw(*k),
                PairRaw(x) => IntKey::PairRaw(*x),
                _ => IntKey::SumRaw,
            };
            let h = obtain_int(r, key, &mut top);
            handles.push(HandleOut::Int(h, key));
            vec![r.int_lookup(h) as i64]
        }
        DoubleRef(key) => {
            let h = obtain_int(r, *key, &mut top);
            top.push(Node::DoubleRef(*key));
            vec![r.double_ref(h) as i64]
        }
        DoubleRefB(key) => {
            let h = obtain_int(r, *key, &mut top);
            top.push(Node::DoubleRefB(*key));
            vec![r.double_ref_b(h) as i64]
        }
        Quad => {
            top.push(Node::Quad);
            vec![r.quad() as i64]
        }
        Rows | RowsB => {
            let rows = if *spec == Rows {
                top.push(Node::Rows);
                r.rows()
            } else {
                top.push(Node::RowsB);
                r.rows_b()
            };
            rows.iter().flat_map(|x| [x.name as i64, x.score as i64]).collect()
        }
        RowRef(n) | RowRefB(n) => {
            let h = if matches!(spec, RowRef(_)) {
                top.push(Node::RowRef(*n));
                r.row_ref(*n)
            } else {
                top.push(Node::RowRefB(*n));
                r.row_ref_b(*n)
            };
            match h {
                Some(h) => {
                    let row = r.row_lookup(h);
                    handles.push(HandleOut::Row(h, row));
                    vec![row.name as i64, row.score as i64]
                }
                None => vec![],
            }
        }
        RowScore(n) => {
            top.push(Node::RowScore(*n));
            vec![r.row_score(*n) as i64]
        }
        RowScoreB(n) => {
            top.push(Node::RowScoreB(*n));
            vec![r.row_score_b(*n) as i64]
        }
        InternedCfg => {
            top.push(Node::InternedCfg);
            let h = r.interned_cfg();
            let key = r.int_key(h);
            handles.push(HandleOut::Int(h, key));
            vec![r.int_lookup(h) as i64]
        }
        UseInterned(v) => {
            let h = obtain_int(r, IntKey::Interned(*v), &mut top);
            top.push(Node::UseInterned(IntKey::Interned(*v)));
            vec![r.use_interned(h) as i64]
        }
        UseChain => {
            top.push(Node::UseChain);
            vec![r.use_chain() as i64]
        }
        KeysTotal => {
            top.push(Node::KeysTotal);
            vec![r.keys_total()]
        }
        PairChild(x, ys) => {
            top.push(Node::PairChild(*x, ys.clone()));
            vec![r.pair_child(*x, ys.clone()) as i64]
        }
        PairChildRef(x, ys) => {
            top.push(Node::PairChildRef(*x, ys.clone()));
            vec![r.pair_child_ref(*x, ys)]
        }
        TripleChild(x, y, ys) => {
            top.push(Node::TripleChild(*x, *y, ys.clone()));
            vec![r.triple_child(*x, *y, ys.clone()) as i64]
        }
        RowParamVia(n, b) => {
            let h = if *b {
                top.push(Node::RowRefB(*n));
                r.row_ref_b(*n)
            } else {
                top.push(Node::RowRef(*n));
                r.row_ref(*n)
            };
            match h {
                Some(h) => {
                    let row = r.row_lookup(h);
                    top.push(Node::RowParam(row));
                    vec![r.row_param(h) as i64]
                }
                None => vec![],
            }
        }
    };
    Performed { val, top, handles }
}

/// From-scratch evaluation of one node on the model: (direct dependencies in read order,
/// transitive sources, transitive nodes incl. interned leaves).
pub fn model_deps(st: &State, n: &Node) -> (Vec<Dep>, BTreeSet<Src>, BTreeSet<Node>) {
    let m = M::new(st);
    match n {
        Node::ValOf(k) => drop(m.val_of(*k)),
        Node::ValOfRef(k) => drop(m.val_of_ref(*k)),
        Node::CfgOr => drop(m.cfg_or()),
        Node::ClampOf(k) => drop(m.clamp_of(*k)),
        Node::SumTracked => drop(m.sum_tracked()),
        Node::UntrackedVal(k) => drop(m.untracked_val(*k)),
        Node::SumKeys(v) => drop(m.sum_keys(v.clone())),
        Node::SumKeysRef(v) => drop(m.sum_keys_ref(v)),
        Node::Branchy => drop(m.branchy()),
        Node::CfgRaw => drop(m.cfg_raw()),
        Node::ValRaw(k) => drop(m.val_raw(*k)),
        Node::SumRaw => drop(m.sum_raw()),
        Node::DoubleRef(key) => drop(m.double_ref(model_handle(st, *key))),
        Node::DoubleRefB(key) => drop(m.double_ref_b(model_handle(st, *key))),
        Node::Quad => drop(m.quad()),
        Node::Rows => drop(m.rows()),
        Node::RowsB => drop(m.rows_b()),
        Node::RowRef(n) => drop(m.row_ref(*n)),
        Node::RowRefB(n) => drop(m.row_ref_b(*n)),
        Node::RowScore(n) => drop(m.row_score(*n)),
        Node::RowScoreB(n) => drop(m.row_score_b(*n)),
        Node::InternedCfg => drop(m.interned_cfg()),
        Node::UseInterned(key) => drop(m.use_interned(model_handle(st, *key))),
        Node::UseChain => drop(m.use_chain()),
        Node::RowParam(row) => drop(m.row_param(*row)),
        Node::KeysTotal => drop(m.keys_total()),
        Node::PairParent(x) => drop(m.pair_parent(*x)),
        Node::PairChild(x, ys) => drop(m.pair_child(*x, ys.clone())),
        Node::PairChildRef(x, ys) => drop(m.pair_child_ref(*x, ys)),
        Node::TripleChild(x, y, ys) => drop(m.triple_child(*x, *y, ys.clone())),
        Node::InternVal(_) | Node::InternRow(_) => return (vec![], BTreeSet::new(), BTreeSet::new()),
    }
    let f = m.root.borrow_mut().take().expect("root frame");
    (f.deps, f.srcs, f.nodes)
}

/// The model value of a handle identity (evaluated outside any frame: no dependency recorded).
fn model_handle(st: &State, key: IntKey) -> MInt {
    let m = M::new(st);
    match key {
        IntKey::CfgRaw => m.cfg_raw(),
        IntKey::ValRaw(k) => m.val_raw(k),
        IntKey::SumRaw => m.sum_raw(),
        IntKey::PairRaw(x) => m.pair_parent(x),
        IntKey::Interned(v) => MInt { key, val: v },
    }
}

/// Normalised model value of a node (what the node's cached value denotes).
pub fn model_value(st: &State, n: &Node) -> Val {
    let m = M::new(st);
    match n {
        Node::ValOf(k) => vec![m.val_of(*k) as i64],
        Node::ValOfRef(k) => vec![m.val_of_ref(*k)],
        Node::CfgOr => vec![m.cfg_or() as i64],
        Node::ClampOf(k) => vec![m.clamp_of(*k) as i64],
        Node::SumTracked => vec![m.sum_tracked() as i64],
        Node::UntrackedVal(k) => m.untracked_val(*k).map(|v| v as i64).into_iter().collect(),
        Node::SumKeys(v) => vec![m.sum_keys(v.clone()) as i64],
        Node::SumKeysRef(v) => vec![m.sum_keys_ref(v)],
        Node::Branchy => vec![m.branchy() as i64],
        Node::CfgRaw => vec![m.cfg_raw().val as i64],
        Node::ValRaw(k) => vec![m.val_raw(*k).val as i64],
        Node::SumRaw => vec![m.sum_raw().val as i64],
        Node::DoubleRef(key) => vec![m.double_ref(model_handle(st, *key)) as i64],
        Node::DoubleRefB(key) => vec![m.double_ref_b(model_handle(st, *key)) as i64],
        Node::Quad => vec![m.quad() as i64],
        Node::Rows => m.rows().iter().flat_map(|x| [x.name as i64, x.score as i64]).collect(),
        Node::RowsB => m.rows_b().iter().flat_map(|x| [x.name as i64, x.score as i64]).collect(),
        // the cached value of row_ref is the handle; handles are equal iff the rows are equal
        Node::RowRef(n) => m.row_ref(*n).map(|x| vec![x.name as i64, x.score as i64]).unwrap_or_default(),
        Node::RowRefB(n) => m.row_ref_b(*n).map(|x| vec![x.name as i64, x.score as i64]).unwrap_or_default(),
        Node::RowScore(n) => vec![m.row_score(*n) as i64],
        Node::RowScoreB(n) => vec![m.row_score_b(*n) as i64],
        Node::InternedCfg => vec![m.interned_cfg().val as i64],
        Node::UseInterned(key) => vec![m.use_interned(model_handle(st, *key)) as i64],
        Node::UseChain => vec![m.use_chain() as i64],
        Node::RowParam(row) => vec![m.row_param(*row) as i64],
        Node::KeysTotal => vec![m.keys_total()],
        Node::PairParent(x) => vec![m.pair_parent(*x).val as i64],
        Node::PairChild(x, ys) => vec![m.pair_child(*x, ys.clone()) as i64],
        Node::PairChildRef(x, ys) => vec![m.pair_child_ref(*x, ys)],
        Node::TripleChild(x, y, ys) => vec![m.triple_child(*x, *y, ys.clone()) as i64],
        Node::InternVal(v) => vec![*v as i64],
        Node::InternRow(r) => vec![r.name as i64, r.score as i64],
    }
}

// ------------------------------------------------------------------------------------------------
// the interpreter with its three oracles
// ------------------------------------------------------------------------------------------------

#[derive(Clone, Debug)]
pub struct Failure {
    /// "C01" | "C02" | "C03" | "PANIC-CALL" | "PANIC-OTHER" | "HARNESS"
    pub class: &'static str,
    pub signature: String,
    pub message: String,
    pub step: usize,
}

#[derive(Default, Debug)]
pub struct Outcome {
    pub failure: Option<Failure>,
    pub labels: BTreeSet<&'static str>,
    pub executed_ops: usize,
    pub skipped_ops: usize,
    pub nontrivial_c01: bool,
    pub nontrivial_c02: bool,
    pub nontrivial_c03: bool,
    pub body_executions: u64,
    pub lookups_checked: u64,
    pub excluded_second_owner: u64,
}

/// What the early-cut-off reference model remembers about a cached node.
#[derive(Clone, Debug)]
struct Rec {
    /// direct dependencies of the last run with the version each had then
    deps: Vec<(Dep, u64)>,
    /// stamp of the last time this node's value changed (or the node was created)
    valver: u64,
    value: Val,
    /// transitive sources with their versions at the last top-level call (C01 non-trivial rule)
    srcs_at_call: BTreeMap<Src, u64>,
    /// survived the last collection as part of the root closure, no write and no run since
    protected: bool,
}

enum PH {
    Int(MemoRef<i32>),
    Row(MemoRef<Row>),
}

struct Handle {
    h: PH,
    /// the node the handle denotes
    node: Node,
    /// top-level node it was obtained from (None: interned directly at top level)
    from: Option<Node>,
    expected: Val,
    writes_at_obtain: u64,
    live: bool,
    raw_ptr: bool,
}

struct Held(Option<RetainedQuery>, Node);
impl Drop for Held {
    fn drop(&mut self) {
        if let Some(mut q) = self.0.take() {
            // never panic in drop while unwinding; histories end by making retains permanent
            q.cleared = true;
        }
    }
}

#[derive(Default, Clone)]
pub struct Options {
    /// known-finding exclusion switches (by construction); see `main.rs`
    pub exclude_absent_singleton_read: bool,
    pub exclude_equal_value_write: bool,
    /// open finding C03 `intern-ref-pointer-outlives-owner`: an `intern_ref` node keeps a raw pointer into the
    /// value of whichever node interned an equal value first; with a second owner of equal rows
    /// (`rows_b`) the collector can free the pointee. Excluded = the second owner never interns.
    pub exclude_second_intern_owner: bool,
}

fn panic_message(e: Box<dyn std::any::Any + Send>) -> String {
    if let Some(s) = e.downcast_ref::<&str>() {
        s.to_string()
    } else if let Some(s) = e.downcast_ref::<String>() {
        s.clone()
    } else {
        "non-string panic payload".to_string()
    }
}

fn panic_signature(msg: &str) -> String {
    let first = msg.lines().next().unwrap_or("");
    let short: String = first.chars().take(70).collect();
    format!("panic:{short}")
}

struct Interp {
    db: TestDb,
    st: State,
    ver: BTreeMap<Src, u64>,
    stamp: u64,
    cache: BTreeMap<Node, Rec>,
    lru: Vec<Node>,
    pending_top: Vec<Node>,
    cap: usize,
    retained: Vec<Held>,
    permanent: Vec<Node>,
    handles: Vec<Handle>,
    writes: u64,
    counts_seen: BTreeMap<Node, u32>,
    gc_count: u32,
    writes_at_last_gc: u64,
    distinct_top_since_start: BTreeSet<Node>,
    // C02 non-trivial bookkeeping
    eq_write_after_change: BTreeSet<Src>,
    changed_since_start: bool,
    reinterned: bool,
    /// which producers (rows = false, rows_b = true) interned a row by reference
    row_owners: BTreeMap<Row, BTreeSet<bool>>,
    out: Outcome,
}

impl Interp {
    fn bump(&mut self, s: Src) {
        *self.ver.entry(s).or_insert(0) += 1;
        self.changed_since_start = true;
    }
    fn v(&self, s: Src) -> u64 {
        self.ver.get(&s).copied().unwrap_or(0)
    }
    fn dep_ver(&self, d: &Dep) -> u64 {
        match d {
            Dep::Src(s) => self.v(*s),
            Dep::Node(n) => self.cache.get(n).map(|r| r.valver).unwrap_or(u64::MAX),
        }
    }
    fn fresh(&mut self) -> u64 {
        self.stamp += 1;
        self.stamp
    }
    fn after_write(&mut self) {
        self.writes += 1;
        for r in self.cache.values_mut() {
            r.protected = false;
        }
        for h in &mut self.handles {
            h.live = false;
        }
    }

    /// tracked mutable access to the map: the counter singleton is bumped (MutView::tracked)
    fn model_tracked_mut(&mut self) {
        self.st.counter = Some(self.st.counter.map_or(0, |c| c + 1));
        self.bump(Src::Counter);
    }

    fn apply_write(&mut self, op: &Op, opts: &Options) -> bool {
        match *op {
            Op::Set(k, v) => {
                let old = self.st.nums.get(&k).copied();
                if old == Some(v) {
                    if opts.exclude_equal_value_write {
                        return false;
                    }
                    self.out.labels.insert("equal-value-write");
                    if self.changed_since_start {
                        self.eq_write_after_change.insert(Src::Num(k));
                    }
                } else {
                    if old.is_none() && self.ver.contains_key(&Src::Num(k)) {
                        self.out.labels.insert("remove-then-re-add");
                    }
                    self.bump(Src::Num(k));
                }
                self.st.nums.insert(k, v);
                self.db.set(Num { key: k, val: v });
            }
            Op::Remove(k) | Op::TrackedRemove(k) => {
                let tracked_only = matches!(op, Op::TrackedRemove(_));
                if !tracked_only && !self.st.nums.contains_key(&k) {
                    return false;
                }
                if self.st.map.contains(&k) || tracked_only {
                    self.model_tracked_mut();
                    self.st.map.remove(&k);
                    self.db.get_map_mut().tracked().0.remove(&k);
                }
                // a map entry goes away together with its source (IsographDatabase::remove_*)
                if self.st.nums.remove(&k).is_some() {
                    self.bump(Src::Num(k));
                    self.db.remove(id_of(k));
                }
            }
            Op::SetCfg(v) => {
                let old = self.st.cfg;
                if old == Some(v) {
                    if opts.exclude_equal_value_write {
                        return false;
                    }
                    self.out.labels.insert("equal-value-write");
                    if self.changed_since_start {
                        self.eq_write_after_change.insert(Src::Cfg);
                    }
                } else {
                    if old.is_none() {
                        self.out.labels.insert("singleton-absent-to-present");
                    }
                    self.bump(Src::Cfg);
                }
                self.st.cfg = Some(v);
                self.db.set(Cfg { val: v });
            }
            Op::RemoveCfg => {
                if self.st.cfg.is_none() {
                    return false;
                }
                self.st.cfg = None;
                self.bump(Src::Cfg);
                self.db.remove_singleton::<Cfg>();
            }
            Op::TrackedInsert(k) => {
                if !self.st.nums.contains_key(&k) {
                    return false;
                }
                if self.st.counter.is_none() {
                    self.out.labels.insert("first-tracked-insert");
                }
                self.model_tracked_mut();
                self.st.map.insert(k);
                self.db.get_map_mut().tracked().0.insert(k, id_of(k));
            }
            _ => unreachable!(),
        }
        self.after_write();
        true
    }

    fn counts_diff(&mut self) -> BTreeMap<Node, u32> {
        let now = self.db.counts.borrow().clone();
        let mut d = BTreeMap::new();
        for (n, c) in &now {
            let before = self.counts_seen.get(n).copied().unwrap_or(0);
            if *c > before {
                d.insert(n.clone(), *c - before);
            }
        }
        self.counts_seen = now;
        d
    }

    /// Would this call read the absent singleton / the absent tracked counter (known finding
    /// "absent-source-read": no dependency is registered on an absent source)?
    fn reads_absent_singleton(&self, spec: &CallSpec) -> bool {
        let m = M::new(&self.st);
        let p = perform(&m, spec);
        let mut srcs = BTreeSet::new();
        for n in &p.top {
            let (_, s, _) = model_deps(&self.st, n);
            srcs.extend(s);
        }
        (srcs.contains(&Src::Cfg) && self.st.cfg.is_none()) || (srcs.contains(&Src::Counter) && self.st.counter.is_none())
    }

    fn in_contract(&self, spec: &CallSpec) -> bool {
        if let Some(k) = spec.needs_source() {
            if !self.st.nums.contains_key(&k) {
                return false;
            }
        }
        if let CallSpec::UntrackedVal(k) = spec {
            if !self.st.map.contains(k) {
                return false;
            }
        }
        true
    }

    /// After a top-level step that may have executed bodies: judge the executions (C02, C03) and
    /// bring the early-cut-off model up to date.
    fn account_executions(&mut self, step: usize, top: &[Node]) -> Option<Failure> {
        let diff = self.counts_diff();
        self.out.body_executions += diff.values().map(|c| *c as u64).sum::<u64>();

        // phase 0: an execution count above one in a single step has no justification at all
        for (n, c) in &diff {
            if *c > 1 {
                return Some(Failure {
                    class: "C02",
                    signature: "executed-twice-in-one-call".into(),
                    message: format!("{n:?} ran {c} times during one top-level call (no write in between)"),
                    step,
                });
            }
        }

        // phase 1: new values of everything that ran; value-change stamps
        let mut newvals: BTreeMap<Node, (Val, bool)> = BTreeMap::new();
        for n in diff.keys() {
            let val = model_value(&self.st, n);
            let changed = match self.cache.get(n) {
                Some(r) => r.value != val,
                None => true,
            };
            newvals.insert(n.clone(), (val, changed));
        }
        // judge with the OLD records, but with the new value stamps of the dependencies
        let mut new_valver: BTreeMap<Node, u64> = BTreeMap::new();
        for (n, (_, changed)) in &newvals {
            if *changed {
                let s = self.fresh();
                new_valver.insert(n.clone(), s);
            }
        }
        let cur_ver = |me: &Self, d: &Dep| -> u64 {
            match d {
                Dep::Node(n) => new_valver.get(n).copied().unwrap_or_else(|| me.dep_ver(d)),
                _ => me.dep_ver(d),
            }
        };
        let mut failure = None;
        for n in diff.keys() {
            let Some(rec) = self.cache.get(n) else { continue }; // never ran / evicted: allowed
            let reason = rec.deps.iter().find(|(d, v)| cur_ver(self, d) != *v);
            if reason.is_none() {
                let (val, changed) = &newvals[n];
                let (class, signature) = if rec.protected {
                    ("C03", "reexecuted-after-gc")
                } else {
                    ("C02", "spurious-reexecution")
                };
                // root-cause refinement for C02: which kind of non-change preceded it
                let mut signature = signature.to_string();
                if class == "C02" {
                    let (_, srcs, _) = model_deps(&self.st, n);
                    if srcs.iter().any(|s| self.eq_write_after_change.contains(s)) {
                        signature = "spurious-reexecution:equal-value-write".into();
                    }
                }
                failure.get_or_insert(Failure {
                    class,
                    signature,
                    message: format!(
                        "{n:?} was re-executed although none of its recorded direct dependencies changed since it last ran \
                         (recorded deps: {:?}; value {:?} -> {:?}, changed={changed}; protected-by-gc-roots={})",
                        rec.deps.iter().map(|(d, _)| d).collect::<Vec<_>>(),
                        rec.value,
                        val,
                        rec.protected
                    ),
                    step,
                });
            } else if !newvals[n].1 {
                // re-run with an equal value: dependents must not run because of it (backdating)
                let has_dependents = self.cache.iter().any(|(p, r)| p != n && r.deps.iter().any(|(d, _)| *d == Dep::Node(n.clone())));
                if has_dependents {
                    self.out.labels.insert("backdated-rerun-with-dependents");
                    self.out.nontrivial_c02 = true;
                }
            }
        }

        // phase 2: update the records of everything that ran
        for (n, (val, changed)) in newvals {
            let (deps, srcs, nodes) = model_deps(&self.st, &n);
            // interned leaves come into existence when interned
            let _ = nodes;
            let direct_leaves: Vec<Node> = deps
                .iter()
                .filter_map(|d| match d {
                    Dep::Node(x) if x.is_intern() => Some(x.clone()),
                    _ => None,
                })
                .collect();
            if let Some(old) = self.cache.get(&n) {
                let a: BTreeSet<&Dep> = old.deps.iter().map(|(d, _)| d).collect();
                let b: BTreeSet<&Dep> = deps.iter().collect();
                if a != b {
                    self.out.labels.insert("dependency-set-changed");
                }
            }
            for leaf in direct_leaves.iter() {
                if let Node::InternRow(row) = leaf {
                    let second = matches!(n, Node::RowRefB(_));
                    self.row_owners.entry(*row).or_default().insert(second);
                }
                if self.cache.contains_key(leaf) && matches!(leaf, Node::InternRow(_)) {
                    // an equal row interned again, possibly at a new address
                    self.out.labels.insert("intern-ref-reinterned");
                    self.reinterned = true;
                }
                if !self.cache.contains_key(leaf) {
                    let s = self.fresh();
                    self.cache.insert(
                        leaf.clone(),
                        Rec { deps: vec![], valver: s, value: model_value(&self.st, leaf), srcs_at_call: BTreeMap::new(), protected: false },
                    );
                }
            }
            let valver = if changed { new_valver[&n] } else { self.cache[&n].valver };
            let old_srcs = self.cache.get(&n).map(|r| r.srcs_at_call.clone()).unwrap_or_default();
            let deps: Vec<(Dep, u64)> = deps
                .into_iter()
                .map(|d| {
                    let v = match &d {
                        Dep::Node(x) => new_valver.get(x).copied().unwrap_or_else(|| self.dep_ver(&d)),
                        _ => self.dep_ver(&d),
                    };
                    (d, v)
                })
                .collect();
            let _ = srcs;
            self.cache.insert(n, Rec { deps, valver, value: val, srcs_at_call: old_srcs, protected: false });
        }
        // a dependency on a node the model does not know means model and pico disagree on what exists
        for n in diff.keys() {
            for (d, v) in &self.cache[n].deps {
                if *v == u64::MAX {
                    failure.get_or_insert(Failure {
                        class: "HARNESS",
                        signature: "model-desync".into(),
                        message: format!("{n:?} depends on {d:?}, which pico served from its cache but the model believes is not cached"),
                        step,
                    });
                }
            }
        }
        // C01 non-trivial rule + snapshots for the top-level nodes
        for t in top {
            let (_, srcs, _) = model_deps(&self.st, t);
            let snap: BTreeMap<Src, u64> = srcs.iter().map(|s| (*s, self.v(*s))).collect();
            if srcs.iter().any(|s| self.eq_write_after_change.contains(s)) && self.cache.get(t).map(|r| !r.srcs_at_call.is_empty()).unwrap_or(false) {
                // a cached reader is called again after an equal-value write that followed a change
                self.out.nontrivial_c02 = true;
                self.out.labels.insert("cached-reader-called-after-equal-value-write");
            }
            if let Some(rec) = self.cache.get_mut(t) {
                if !rec.srcs_at_call.is_empty() || !snap.is_empty() {
                    let changed = rec.srcs_at_call.iter().any(|(s, v)| snap.get(s).map(|x| x != v).unwrap_or(true))
                        || snap.keys().any(|s| !rec.srcs_at_call.contains_key(s));
                    if changed && !rec.srcs_at_call.is_empty() {
                        self.out.nontrivial_c01 = true;
                        self.out.labels.insert("recall-after-input-change");
                    }
                }
                rec.srcs_at_call = snap;
            }
        }
        failure
    }

    fn model_gc(&mut self) {
        for t in std::mem::take(&mut self.pending_top) {
            self.lru.retain(|x| *x != t);
            self.lru.push(t);
            if self.lru.len() > self.cap {
                self.lru.remove(0);
            }
        }
        let mut queue: Vec<Node> = self.lru.clone();
        queue.extend(self.retained.iter().filter(|h| h.0.is_some()).map(|h| h.1.clone()));
        queue.extend(self.permanent.iter().cloned());
        let mut keep = BTreeSet::new();
        while let Some(n) = queue.pop() {
            if !keep.insert(n.clone()) {
                continue;
            }
            if let Some(rec) = self.cache.get(&n) {
                for (d, _) in &rec.deps {
                    if let Dep::Node(x) = d {
                        queue.push(x.clone());
                    }
                }
            }
        }
        let writes_since_verify_free = true;
        let _ = writes_since_verify_free;
        self.cache.retain(|n, _| keep.contains(n));
        for (_, r) in self.cache.iter_mut() {
            r.protected = false;
        }
        for h in &mut self.handles {
            let root_ok = match &h.from {
                Some(f) => keep.contains(f),
                None => false,
            };
            if !(root_ok && keep.contains(&h.node)) {
                h.live = false;
            }
        }
    }
}

/// Run one history against pico and the model. Stops at the first failure of any class.
pub fn run_history(cap: usize, ops: &[Op], opts: &Options) -> Outcome {
    let cap = cap.clamp(1, 8);
    let mut it = Interp {
        db: TestDb::new(cap),
        st: State::default(),
        ver: BTreeMap::new(),
        stamp: 0,
        cache: BTreeMap::new(),
        lru: vec![],
        pending_top: vec![],
        cap,
        retained: vec![],
        permanent: vec![],
        handles: vec![],
        writes: 0,
        counts_seen: BTreeMap::new(),
        gc_count: 0,
        writes_at_last_gc: 0,
        distinct_top_since_start: BTreeSet::new(),
        eq_write_after_change: BTreeSet::new(),
        changed_since_start: false,
        reinterned: false,
        row_owners: BTreeMap::new(),
        out: Outcome::default(),
    };
    HANDLE_KEYS.with(|m| m.borrow_mut().clear());

    for (step, op) in ops.iter().enumerate() {
        let r = catch_unwind(AssertUnwindSafe(|| step_once(&mut it, step, op, opts)));
        match r {
            Ok(None) => {}
            Ok(Some(f)) => {
                it.out.failure = Some(f);
                break;
            }
            Err(e) => {
                let msg = panic_message(e);
                let class = if msg.starts_with("harness:") {
                    "HARNESS"
                } else if matches!(op, Op::Call(_)) {
                    "PANIC-CALL"
                } else {
                    "PANIC-OTHER"
                };
                it.out.failure = Some(Failure {
                    class,
                    signature: panic_signature(&msg),
                    message: format!("panic during `{}`: {msg}", op.encode()),
                    step,
                });
                break;
            }
        }
    }
    // RetainedQuery contract: every guard is cleared or made permanent
    for mut h in std::mem::take(&mut it.retained) {
        if let Some(q) = h.0.take() {
            q.never_garbage_collect();
        }
    }
    it.out
}

fn step_once(it: &mut Interp, step: usize, op: &Op, opts: &Options) -> Option<Failure> {
    match op {
        Op::Set(..) | Op::Remove(_) | Op::SetCfg(_) | Op::RemoveCfg | Op::TrackedInsert(_) | Op::TrackedRemove(_) => {
            if it.apply_write(op, opts) {
                it.out.executed_ops += 1;
            } else {
                it.out.skipped_ops += 1;
            }
            None
        }
        Op::Call(spec) => {
            if !it.in_contract(spec) {
                it.out.skipped_ops += 1;
                return None;
            }
            if opts.exclude_second_intern_owner && matches!(spec, CallSpec::RowRefB(_) | CallSpec::RowScoreB(_) | CallSpec::RowParamVia(_, true)) {
                it.out.skipped_ops += 1;
                it.out.excluded_second_owner += 1;
                return None;
            }
            if opts.exclude_absent_singleton_read && it.reads_absent_singleton(spec) {
                it.out.skipped_ops += 1;
                it.out.labels.insert("excluded:absent-source-read");
                return None;
            }
            it.out.executed_ops += 1;
            // expected value: from-scratch evaluation on the model
            let expected = perform(&M::new(&it.st), spec);
            let got = perform(&P(&it.db), spec);
            for t in &got.top {
                it.pending_top.push(t.clone());
                it.distinct_top_since_start.insert(t.clone());
            }
            if got.top.iter().any(|t| matches!(t, Node::DoubleRef(_) | Node::DoubleRefB(_) | Node::UseInterned(_) | Node::RowParam(_))) {
                it.out.labels.insert("memoref-param");
            }
            let exec_fail = it.account_executions(step, &expected.top);
            if got.val != expected.val || got.top != expected.top {
                let absent = (it.st.cfg.is_some() || it.st.counter.is_some()) && true;
                let _ = absent;
                return Some(Failure {
                    class: "C01",
                    signature: "stale-result".into(),
                    message: format!(
                        "`{}` returned {:?}, a from-scratch evaluation on the current sources gives {:?} (sources: {:?})",
                        op.encode(),
                        got.val,
                        expected.val,
                        it.st
                    ),
                    step,
                });
            }
            if let Some(f) = exec_fail {
                return Some(f);
            }
            // remember the handles this call produced
            let from = expected.top.last().cloned();
            for h in got.handles {
                let (ph, node, exp, raw_ptr) = match h {
                    HandleOut::Int(h, key) => (PH::Int(h), key.node(), model_value(&it.st, &key.node()), false),
                    HandleOut::Row(h, row) => {
                        it.out.labels.insert("row-handle");
                        (PH::Row(h), Node::InternRow(row), vec![row.name as i64, row.score as i64], true)
                    }
                };
                it.handles.push(Handle { h: ph, node, from: from.clone(), expected: exp, writes_at_obtain: it.writes, live: true, raw_ptr });
            }
            None
        }
        Op::InternValue(v) => {
            it.out.executed_ops += 1;
            let h = register_handle(it.db.intern_value(*v), IntKey::Interned(*v));
            if !it.cache.contains_key(&Node::InternVal(*v)) {
                let s = it.fresh();
                it.cache.insert(
                    Node::InternVal(*v),
                    Rec { deps: vec![], valver: s, value: vec![*v as i64], srcs_at_call: BTreeMap::new(), protected: false },
                );
            }
            it.handles.push(Handle {
                h: PH::Int(h),
                node: Node::InternVal(*v),
                from: None,
                expected: vec![*v as i64],
                writes_at_obtain: it.writes,
                live: true,
                raw_ptr: false,
            });
            None
        }
        Op::Lookup(i) => {
            if it.handles.is_empty() {
                it.out.skipped_ops += 1;
                return None;
            }
            let idx = (*i as usize) % it.handles.len();
            let h = &it.handles[idx];
            if !h.live || h.writes_at_obtain != it.writes {
                it.out.skipped_ops += 1;
                return None;
            }
            it.out.executed_ops += 1;
            it.out.lookups_checked += 1;
            let got: Val = match &h.h {
                PH::Int(m) => vec![*m.lookup(&it.db) as i64],
                PH::Row(m) => {
                    let r = *m.lookup(&it.db);
                    vec![r.name as i64, r.score as i64]
                }
            };
            if it.gc_count > 0 {
                it.out.labels.insert("lookup-after-gc");
                if h.raw_ptr {
                    it.out.labels.insert("row-lookup-after-gc");
                    if it.reinterned {
                        it.out.labels.insert("row-lookup-after-gc-and-reintern");
                    }
                    if let Node::InternRow(row) = &h.node {
                        if it.row_owners.get(row).map(|o| o.len() > 1).unwrap_or(false) {
                            it.out.labels.insert("row-lookup-after-gc-two-owners");
                        }
                    }
                }
            }
            if got != h.expected {
                // root cause refinement: a pointer-kind handle whose row was interned by reference
                // from two different owners, read after a collection
                let two_owners = match &h.node {
                    Node::InternRow(row) => it.row_owners.get(row).map(|o| o.len() > 1).unwrap_or(false),
                    _ => false,
                };
                let signature = if h.raw_ptr && it.gc_count > 0 && two_owners {
                    "intern-ref-pointer-outlives-owner"
                } else {
                    "handle-reads-other-value"
                };
                return Some(Failure {
                    class: "C03",
                    signature: signature.into(),
                    message: format!("handle to {:?} (obtained from {:?}) reads {:?}, its original value is {:?}", h.node, h.from, got, h.expected),
                    step,
                });
            }
            None
        }
        Op::Retain(f) => {
            let (spec, node) = match f {
                RawFn::CfgRaw => (CallSpec::CfgRaw, Node::CfgRaw),
                RawFn::SumRaw => (CallSpec::SumRaw, Node::SumRaw),
                RawFn::ValRaw(k) => (CallSpec::ValRaw(*k), Node::ValRaw(*k)),
                RawFn::PairRaw(x) => (CallSpec::PairRaw(*x), Node::PairParent(*x)),
            };
            if !it.in_contract(&spec) || (opts.exclude_absent_singleton_read && it.reads_absent_singleton(&spec)) {
                it.out.skipped_ops += 1;
                return None;
            }
            // obtain a fresh handle by calling (a top-level call like any other), then retain it
            let r = step_once(it, step, &Op::Call(spec), opts);
            if r.is_some() {
                return r;
            }
            let Some(Handle { h: PH::Int(m), .. }) = it.handles.last() else { panic!("harness: raw call produced no handle") };
            let q = retain(&it.db, *m);
            it.retained.push(Held(Some(q), node));
            it.out.labels.insert("retain");
            None
        }
        Op::RetainHandle(i) => {
            if it.handles.is_empty() {
                it.out.skipped_ops += 1;
                return None;
            }
            let idx = (*i as usize) % it.handles.len();
            let h = &it.handles[idx];
            // a pointer-kind handle borrows from another node's value; retaining it alone is
            // outside what the API documents (assumption recorded in the evidence)
            if !h.live || h.writes_at_obtain != it.writes || h.raw_ptr {
                it.out.skipped_ops += 1;
                return None;
            }
            it.out.executed_ops += 1;
            let PH::Int(m) = &h.h else { unreachable!() };
            let q = retain(&it.db, *m);
            let node = h.node.clone();
            it.retained.push(Held(Some(q), node));
            it.out.labels.insert("retain-handle");
            None
        }
        Op::ClearRetain(i) | Op::NeverGc(i) => {
            let open: Vec<usize> = it.retained.iter().enumerate().filter(|(_, h)| h.0.is_some()).map(|(i, _)| i).collect();
            if open.is_empty() {
                it.out.skipped_ops += 1;
                return None;
            }
            it.out.executed_ops += 1;
            let idx = open[(*i as usize) % open.len()];
            let q = it.retained[idx].0.take().unwrap();
            if matches!(op, Op::ClearRetain(_)) {
                clear_retain(&it.db, q);
                it.out.labels.insert("clear-retain");
            } else {
                q.never_garbage_collect();
                let n = it.retained[idx].1.clone();
                it.permanent.push(n);
                it.out.labels.insert("never-gc");
            }
            None
        }
        Op::Gc => {
            it.out.executed_ops += 1;
            let distinct_pending: BTreeSet<&Node> = it.pending_top.iter().collect();
            let has_retain = it.retained.iter().any(|h| h.0.is_some()) || !it.permanent.is_empty();
            if distinct_pending.len() + it.lru.len() > it.cap || has_retain || it.reinterned {
                it.out.nontrivial_c03 = true;
            }
            it.db.run_garbage_collection();
            it.model_gc();
            it.gc_count += 1;
            it.writes_at_last_gc = it.writes;
            for r in it.cache.values_mut() {
                r.protected = true;
            }
            it.out.labels.insert("gc");
            None
        }
    }
}
