//! Miri engine for C03 (stub while the native engine is brought up).
use vcore::{Args, Fail, Report};

use crate::interp::{Op, Options};

pub fn replay_under_miri(_report: &Report, _hs: &[(usize, Vec<Op>)]) -> Result<(), Fail> {
    Ok(())
}

pub fn miri_tier(_report: &Report, _args: &Args, _opts: &Options) {}
