//! Miri engine for C03: selected G-HIST histories, serialised, are replayed by the tiny
//! `pico_hist/miri` binary under `cargo +nightly miri run`. Any Miri diagnostic (use after free,
//! uninitialised read, invalid reference through `RawPtr`, ...) is a C03 violation, and so is any
//! model failure or pico panic the replay reports.
use std::path::PathBuf;
use std::process::Command;

use serde_json::json;
use vcore::{Args, Fail, Report};

use crate::interp::{self, Op, Options};

fn target_dir() -> PathBuf {
    // <target>/debug/pico_hist -> <target>/miri-pico
    let exe = std::env::current_exe().unwrap_or_else(|_| PathBuf::from("harness/target/debug/pico_hist"));
    let target = exe.parent().and_then(|p| p.parent()).map(|p| p.to_path_buf()).unwrap_or_else(|| vcore::verif_root().join("harness/target"));
    target.join("miri-pico")
}

fn manifest() -> PathBuf {
    vcore::verif_root().join("harness/pico_hist/miri/Cargo.toml")
}

pub struct MiriRun {
    pub status: Option<i32>,
    pub stdout: String,
    pub stderr: String,
}

fn run_miri(histories: &[(usize, Vec<Op>)], opts: &Options) -> MiriRun {
    let dir = vcore::scratch_base();
    let file = dir.join("miri-histories.txt");
    let mut text = String::new();
    if opts.exclude_absent_singleton_read {
        text.push_str("#exclude absent_singleton_read\n");
    }
    if opts.exclude_equal_value_write {
        text.push_str("#exclude equal_value_write\n");
    }
    if opts.exclude_second_intern_owner {
        text.push_str("#exclude second_intern_owner\n");
    }
    // the replay numbers histories by line: keep the header out of the numbering
    let header_lines = text.lines().count();
    let _ = header_lines;
    text.extend(histories.iter().map(|(c, o)| interp::encode_history(*c, o) + "\n"));
    std::fs::write(&file, text).expect("write histories");
    let out = Command::new("cargo")
        .arg("+nightly")
        .args(["miri", "run", "--offline", "-q", "--manifest-path"])
        .arg(manifest())
        .arg("--target-dir")
        .arg(target_dir())
        .arg("--")
        .arg(&file)
        .env("MIRIFLAGS", "-Zmiri-disable-isolation -Zmiri-ignore-leaks")
        .env("RUST_BACKTRACE", "0")
        .env_remove("RUSTFLAGS")
        .env_remove("CARGO_TARGET_DIR")
        .output();
    match out {
        Ok(o) => MiriRun {
            status: o.status.code(),
            stdout: String::from_utf8_lossy(&o.stdout).to_string(),
            stderr: String::from_utf8_lossy(&o.stderr).to_string(),
        },
        Err(e) => vcore::inconclusive(&format!("cannot start cargo +nightly miri: {e}")),
    }
}

/// Judge a Miri run. `Err((index of the history, failure))`.
fn judge(run: &MiriRun, n: usize) -> Result<(), (usize, Fail)> {
    let mut current = 0usize;
    let mut done = None;
    for l in run.stdout.lines() {
        if let Some(i) = l.strip_prefix("BEGIN ") {
            current = i.trim().parse().unwrap_or(0);
        } else if let Some(rest) = l.strip_prefix("FAIL ") {
            let mut it = rest.splitn(4, ' ');
            let idx: usize = it.next().and_then(|x| x.parse().ok()).unwrap_or(current);
            let class = it.next().unwrap_or("");
            let sig = it.next().unwrap_or("").to_string();
            if class == "HARNESS" {
                vcore::inconclusive(&format!("harness-internal failure under Miri: {rest}"));
            }
            return Err((idx, Fail::new(format!("miri-replay:{sig}"), format!("under Miri the replay reports: {rest}"))));
        } else if let Some(k) = l.strip_prefix("DONE ") {
            done = k.trim().parse::<usize>().ok();
        }
    }
    if run.status == Some(0) && done == Some(n) {
        return Ok(());
    }
    let err = &run.stderr;
    let is_ub = err.contains("Undefined Behavior") || err.contains("error: unsupported operation") || err.contains("memory leaked") || err.contains("data race");
    if is_ub {
        let first = err.lines().find(|l| l.starts_with("error")).unwrap_or("error").to_string();
        // root cause: the raw pointer of an intern_ref node is dereferenced after its pointee died
        if (first.contains("dangling") || first.contains("freed")) && err.contains("pico::RawPtr") && err.contains("MemoRef") {
            let tail: Vec<&str> = err.lines().filter(|l| !l.trim().is_empty()).take(30).collect();
            return Err((current, Fail::new("intern-ref-pointer-outlives-owner", format!("Miri aborted history #{current}:\n{}", tail.join("\n")))));
        }
        let kind = if first.contains("dangling") || first.contains("freed") || first.contains("dereferenced") {
            "use-after-free"
        } else if first.contains("uninitialized") {
            "uninitialised-read"
        } else {
            "undefined-behaviour"
        };
        let tail: Vec<&str> = err.lines().filter(|l| !l.trim().is_empty()).take(30).collect();
        return Err((current, Fail::new(format!("miri:{kind}"), format!("Miri aborted history #{current}:\n{}", tail.join("\n")))));
    }
    // anything else (build failure, missing component, crash of miri itself) is not a verdict
    let tail: Vec<&str> = err.lines().rev().take(25).collect::<Vec<_>>().into_iter().rev().collect();
    println!("{}", tail.join("\n"));
    vcore::inconclusive(&format!("cargo miri did not complete (status {:?}, {}/{} histories)", run.status, done.unwrap_or(0), n));
}

/// Replay the given histories under Miri (used by `--replay` for C03).
pub fn replay_under_miri(report: &Report, hs: &[(usize, Vec<Op>)]) -> Result<(), Fail> {
    report.engine("miri");
    let run = run_miri(hs, &Options::default());
    judge(&run, hs.len()).map_err(|(_, f)| f)
}

/// The Miri part of the C03 tiers: a fixed number of short, selected histories.
pub fn miri_tier(report: &Report, args: &Args, opts: &Options) {
    use proptest::prelude::*;
    report.engine("miri");
    let want = args.tier.pick(8usize, 200usize);
    let max_len = args.tier.pick(12usize, 24usize);
    // candidates: GC-heavy short histories; keep the ones in which a handle is read after a
    // collection or an intern_ref'd row is re-interned, as judged by a native run
    let strat = prop_oneof![
        1 => (1..=3usize, prop::collection::vec(crate::mixed_op(true, 10), 4..=max_len)),
        1 => crate::row_scenario(max_len.saturating_sub(8)),
    ];
    let candidates = vcore::generate_values(vcore::derive_seed(report.seed, "miri-histories", 0), want * 200, &strat);
    let mut chosen: Vec<(usize, Vec<Op>)> = vec![];
    let mut plain: Vec<(usize, Vec<Op>)> = vec![];
    let mut risky_chosen: Vec<(usize, Vec<Op>)> = vec![];
    let mut two_owner: Vec<(usize, Vec<Op>)> = vec![];
    for h in candidates {
        let out = crate::guard::guarded_run(h.0, &h.1, opts);
        if out.failure.is_some() {
            continue; // native failures are reported by the native part
        }
        // the expensive engine goes where raw pointers are dereferenced after a collection
        if out.labels.contains("row-lookup-after-gc-two-owners") && two_owner.len() < want / 2 {
            two_owner.push(h);
            continue;
        }
        let risky = out.labels.contains("row-lookup-after-gc-and-reintern") || out.labels.contains("row-lookup-after-gc");
        if risky && risky_chosen.len() < want / 3 {
            risky_chosen.push(h);
            continue;
        }
        let interesting = out.labels.contains("lookup-after-gc") || (out.labels.contains("gc") && out.labels.contains("row-handle"));
        if interesting && chosen.len() < want {
            chosen.push(h);
        } else if out.labels.contains("gc") && plain.len() < want {
            plain.push(h);
        }
    }
    report.label_n("miri-histories-with-row-lookup-after-gc-two-owners", two_owner.len() as u64);
    report.label_n("miri-histories-with-row-lookup-after-gc", risky_chosen.len() as u64);
    two_owner.append(&mut risky_chosen);
    let mut risky_chosen = two_owner;
    chosen.truncate(want - risky_chosen.len().min(want));
    risky_chosen.append(&mut chosen);
    let mut chosen = risky_chosen;
    while chosen.len() < want && !plain.is_empty() {
        chosen.push(plain.remove(0));
    }
    if chosen.is_empty() {
        report.note_inconclusive("no history selected for Miri");
        return;
    }
    let start = std::time::Instant::now();
    // thorough: in chunks, so one abort does not hide the rest of the evidence
    let chunk = args.tier.pick(want, 50);
    let mut ran = 0u64;
    for part in chosen.chunks(chunk) {
        let run = run_miri(part, opts);
        match judge(&run, part.len()) {
            Ok(()) => {
                ran += part.len() as u64;
            }
            Err((idx, fail)) => {
                let h = &part[idx.min(part.len() - 1)];
                let sig = fail.signature.clone();
                match report.tolerate(Err(fail)) {
                    Ok(()) => {
                        // tolerated (listed finding): keep the input as evidence and go on
                        println!("NOTE: Miri hit the listed finding {sig} on {}", interp::encode_history(h.0, &h.1));
                        report.sample("miri-known-finding", 3, || crate::history_json(h));
                    }
                    Err(fail) => {
                        report.violation("miri-history", &fail, crate::history_json(h));
                        break;
                    }
                }
            }
        }
    }
    report.label_n("miri-histories-replayed", ran);
    report.extra("miri", json!({"histories": ran, "wall_s": start.elapsed().as_secs_f64(), "flags": "-Zmiri-disable-isolation -Zmiri-ignore-leaks"}));
    report.sample("miri", 2, || crate::history_json(&chosen[0]));
}
