//! `pico_hist_miri <file>`: every line of the file is one encoded history (`cap|op;op;...`).
//! Each is interpreted against pico and the model exactly as the native check does; model
//! failures are printed as `FAIL <line> <class> <signature> :: <message>`. Undefined behaviour is
//! reported by Miri itself (the process aborts with a diagnostic).
#[path = "../../src/interp.rs"]
#[allow(dead_code)]
mod interp;

fn main() {
    let path = std::env::args().nth(1).expect("usage: pico_hist_miri <file>");
    let text = std::fs::read_to_string(&path).expect("read histories");
    let mut n = 0;
    for (i, line) in text.lines().enumerate() {
        let line = line.trim();
        if line.is_empty() {
            continue;
        }
        let Some((cap, ops)) = interp::decode_history(line) else {
            println!("BAD-LINE {i}");
            std::process::exit(3);
        };
        println!("BEGIN {i}");
        let out = interp::run_history(cap, &ops, &interp::Options::default());
        if let Some(f) = out.failure {
            println!("FAIL {i} {} {} :: step {}: {}", f.class, f.signature, f.step, f.message.replace('\n', " "));
        }
        println!("END {i} executed_ops={} lookups={}", out.executed_ops, out.lookups_checked);
        n += 1;
    }
    println!("DONE {n}");
}
