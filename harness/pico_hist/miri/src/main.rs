//! `pico_hist_miri <file>`: every line of the file is one encoded history (`cap|op;op;...`).
//! Each is interpreted against pico and the model exactly as the native check does; model
//! failures are printed as `FAIL <line> <class> <signature> :: <message>`. Undefined behaviour is
//! reported by Miri itself (the process aborts with a diagnostic).
#[path = "../../src/interp.rs"]
#[allow(dead_code)]
mod interp;

fn main() {
    let path = std::env::args().nth(1).expect("usage: pico_hist_miri <file>");
    let text = std::fs::read_to_string(&path).expect("read histories");
    let mut n = 0;
    let mut opts = interp::Options::default();
    for (i, line) in text.lines().enumerate() {
        let line = line.trim();
        if line.is_empty() {
            continue;
        }
        // `#exclude <switch>`: the known-finding exclusion switches of the native run
        if let Some(rest) = line.strip_prefix("#exclude ") {
            match rest.trim() {
                "absent_singleton_read" => opts.exclude_absent_singleton_read = true,
                "equal_value_write" => opts.exclude_equal_value_write = true,
                "second_intern_owner" => opts.exclude_second_intern_owner = true,
                _ => {
                    println!("BAD-LINE {i}");
                    std::process::exit(3);
                }
            }
            continue;
        }
        let Some((cap, ops)) = interp::decode_history(line) else {
            println!("BAD-LINE {i}");
            std::process::exit(3);
        };
        println!("BEGIN {n}");
        let out = interp::run_history(cap, &ops, &opts);
        if let Some(f) = out.failure {
            println!("FAIL {n} {} {} :: step {}: {}", f.class, f.signature, f.step, f.message.replace('\n', " "));
        }
        println!("END {n} executed_ops={} lookups={}", out.executed_ops, out.lookups_checked);
        n += 1;
    }
    println!("DONE {n}");
}
