// Module hooks that let node 22 execute the repository's TypeScript runtime
// (<repo>/libs/isograph-react/src/core/*.ts) head-less and unmodified:
//
//   resolve: extension-less relative specifiers inside <repo>/libs -> `.ts` (or `/index.ts`);
//            `react` -> a stub module (hooks are never called head-less);
//            `@isograph/disposable-types`, `@isograph/react-disposable-state`,
//            `@isograph/reference-counted-pointer` -> <repo>/libs/<pkg>/src/index.ts
//   load:    TypeScript source -> node:module.stripTypeScriptTypes (types erased, nothing else
//            rewritten). For the modules listed in PRIVATE_EXPORTS one line
//            `export { f as __verif_f }` is appended so module-private functions can be called;
//            the function bodies executed are the repository's, unmodified.
//
// The repository root comes from the environment variable VERIF_REPO (default /repo), so that a
// mutated scratch worktree is what gets executed during sensitivity runs.
import { stripTypeScriptTypes } from 'node:module';
import { readFileSync, existsSync, statSync } from 'node:fs';
import { fileURLToPath, pathToFileURL } from 'node:url';
import path from 'node:path';

const REPO = path.resolve(process.env.VERIF_REPO || '/repo');
const LIBS = path.join(REPO, 'libs');

const PACKAGES = {
  '@isograph/disposable-types': 'isograph-disposable-types/src/index.ts',
  '@isograph/react-disposable-state': 'isograph-react-disposable-state/src/index.ts',
  '@isograph/reference-counted-pointer': 'isograph-reference-counted-pointer/src/index.ts',
};

// file (relative to <repo>/libs) -> module-private bindings to export as __verif_<name>
const PRIVATE_EXPORTS = {
  'isograph-react/src/core/cache.ts': ['getNetworkResponseKey', 'getArgumentValueChunk'],
  'isograph-react/src/core/read.ts': ['readData'],
};

const REACT_STUB_URL = 'verif-stub:react';
const REACT_NAMES = [
  'useEffect', 'useRef', 'useState', 'useCallback', 'useMemo', 'useContext', 'useReducer',
  'useLayoutEffect', 'useSyncExternalStore', 'useTransition', 'useDeferredValue', 'useId',
  'createContext', 'createElement', 'forwardRef', 'memo', 'lazy', 'Suspense', 'Fragment',
  'startTransition', 'use', 'Component', 'PureComponent', 'StrictMode', 'cloneElement',
  'isValidElement', 'Children', 'useImperativeHandle', 'useDebugValue', 'useInsertionEffect',
];
const REACT_STUB_SOURCE =
  `const notHeadless = (name) => function () { throw new Error('verif react stub: ' + name + ' called head-less'); };\n` +
  REACT_NAMES.map((n) => `export const ${n} = notHeadless(${JSON.stringify(n)});`).join('\n') +
  `\nexport default { ${REACT_NAMES.join(', ')} };\n`;

function isFile(p) {
  try {
    return statSync(p).isFile();
  } catch {
    return false;
  }
}

export async function resolve(specifier, context, nextResolve) {
  if (specifier === 'react' || specifier === 'react/jsx-runtime') {
    return { url: REACT_STUB_URL, shortCircuit: true, format: 'module' };
  }
  if (Object.prototype.hasOwnProperty.call(PACKAGES, specifier)) {
    const target = path.join(LIBS, PACKAGES[specifier]);
    return { url: pathToFileURL(target).href, shortCircuit: true, format: 'module' };
  }
  const parent = context.parentURL;
  if ((specifier.startsWith('./') || specifier.startsWith('../')) && parent && parent.startsWith('file:')) {
    const parentPath = fileURLToPath(parent);
    if (parentPath.startsWith(LIBS + path.sep)) {
      const base = path.resolve(path.dirname(parentPath), specifier);
      for (const cand of [base, base + '.ts', base + '.tsx', path.join(base, 'index.ts')]) {
        if (isFile(cand)) {
          return { url: pathToFileURL(cand).href, shortCircuit: true, format: 'module' };
        }
      }
    }
  }
  return nextResolve(specifier, context);
}

export async function load(url, context, nextLoad) {
  if (url === REACT_STUB_URL) {
    return { format: 'module', source: REACT_STUB_SOURCE, shortCircuit: true };
  }
  if (url.startsWith('file:') && (url.endsWith('.ts') || url.endsWith('.tsx'))) {
    const file = fileURLToPath(url);
    if (file.startsWith(LIBS + path.sep) && existsSync(file)) {
      const text = readFileSync(file, 'utf8');
      let source = stripTypeScriptTypes(text, { mode: 'strip' });
      const rel = path.relative(LIBS, file).split(path.sep).join('/');
      const extra = PRIVATE_EXPORTS[rel];
      if (extra) {
        source += '\n' + extra.map((n) => `export { ${n} as __verif_${n} };`).join('\n') + '\n';
      }
      return { format: 'module', source, shortCircuit: true };
    }
  }
  return nextLoad(url, context);
}
