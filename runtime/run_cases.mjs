// Batch driver: executes cases against the repository's real TypeScript runtime.
//
//   node --import /verif/runtime/register.mjs /verif/runtime/run_cases.mjs [--in FILE] [--out FILE]
//
// Input : newline-delimited JSON cases on stdin (or --in FILE). Output: one JSON result per case,
//         in order, one per line, on stdout (or --out FILE). The first output line is a handshake
//         {"ready":true,"node":"v22…","repo":"/repo"}. Every result echoes the case's "id".
//
// A result has "ok": true when the DRIVER did its job (whatever the runtime answered), and
// "ok": false, "stage": "driver"|"eval", "error": … when the driver could not run the case
// (bad JSON, unknown kind, argument text that is not a JS expression). Callers must map ok:false
// to "inconclusive", never to a property violation.
//
// Case kinds
//  (a) {"kind":"response_key","fieldName":"f","arguments":<text|json|null>,"linked":false,
//       "variables":{…}?, "echo":false?}
//      `arguments` given as a STRING is the JS expression text the compiler emits for an argument
//      list (`null` or `[ [ "name", { kind: "Literal", value: 1 } ], … ]`); it is evaluated with
//      `new Function`, so the value is exactly what the artifact module would contain. Given as
//      JSON (array/null) it is used as is.
//      -> {"ok":true,"key":getNetworkResponseKey(node)} (+ "parentRecordKey" when variables are
//         given, + "evaluated" when echo is true). A throw inside the runtime function gives
//         {"ok":true,"threw":"message"}.
//  (b) {"kind":"normalize_and_read","normalizationAst":[…]|{kind:"NormalizationAst",selections},
//       "readerAst":[…], "response":{…}, "variables":{…}, "concreteType":"Query"?,
//       "nestedRefetchQueries":[…]?, "readComponents":true?, "returnData":false?,
//       "returnStore":false?, "directIntoBaseLayer":false?, "extraReads":[{readerAst,root,variables,
//       nestedRefetchQueries?,label?}]?}
//      Fresh environment and store; `normalizeData` (into a network-response store layer, as
//      makeNetworkRequest does) and then the module-private `readData` on the reader AST at the
//      root. See reviveReaderAst for how nested artifacts / functions are represented in JSON.
//      -> {"ok":true,"kind":"Success"|"MissingData"|"Exception", "reasonChain":[…],
//          "recordLink":…, "componentReads":[{fieldName,root,variables,kind,reasonChain}],
//          "extraReads":[…], "data"?, "store"?}
//  (c) {"kind":"ping"} -> {"ok":true,"pong":true}
import { createInterface } from 'node:readline';
import { createReadStream, openSync, writeSync, closeSync } from 'node:fs';
import path from 'node:path';
import { pathToFileURL } from 'node:url';

const REPO = path.resolve(process.env.VERIF_REPO || '/repo');
const CORE = path.join(REPO, 'libs/isograph-react/src/core');
const imp = (f) => import(pathToFileURL(path.join(CORE, f)).href);

const argv = process.argv.slice(2);
let inFile = null;
let outFile = null;
for (let i = 0; i < argv.length; i++) {
  if (argv[i] === '--in') inFile = argv[++i];
  else if (argv[i] === '--out') outFile = argv[++i];
}
const outFd = outFile ? openSync(outFile, 'w') : 1;
function emit(obj) {
  writeSync(outFd, JSON.stringify(obj) + '\n');
}

let cache, read, envMod, promiseWrapper, optimisticProxy;
try {
  cache = await imp('cache.ts');
  read = await imp('read.ts');
  envMod = await imp('IsographEnvironment.ts');
  promiseWrapper = await imp('PromiseWrapper.ts');
  optimisticProxy = await imp('optimisticProxy.ts');
  for (const [m, n] of [
    [cache, '__verif_getNetworkResponseKey'],
    [cache, 'getParentRecordKey'],
    [cache, 'normalizeData'],
    [read, '__verif_readData'],
    [envMod, 'createIsographEnvironmentCore'],
    [envMod, 'createIsographStore'],
    [promiseWrapper, 'wrapResolvedValue'],
  ]) {
    if (typeof m[n] !== 'function') throw new Error('runtime export missing: ' + n);
  }
} catch (e) {
  emit({ ready: false, error: String(e && e.stack ? e.stack : e) });
  process.exit(3);
}
emit({ ready: true, node: process.version, repo: REPO });

function evalJs(text) {
  // The text is a JS expression out of an artifact module (object/array/string/number literals).
  return new Function('"use strict"; return (' + text + '\n);')();
}

function jsonSafe(value) {
  const seen = new WeakSet();
  return JSON.parse(
    JSON.stringify(value, (_k, v) => {
      if (typeof v === 'function') return '[Function]';
      if (typeof v === 'bigint') return v.toString() + 'n';
      if (typeof v === 'symbol') return v.toString();
      if (v === undefined) return '[undefined]';
      if (typeof v === 'object' && v !== null) {
        if (seen.has(v)) return '[Circular]';
        seen.add(v);
      }
      return v;
    }) ?? 'null',
  );
}

// ---------------------------------------------------------------------------------------------
// (a) response keys
function runResponseKey(c) {
  let args;
  if (typeof c.arguments === 'string') {
    try {
      args = evalJs(c.arguments);
    } catch (e) {
      return { ok: false, stage: 'eval', error: String(e) };
    }
  } else {
    args = c.arguments ?? null;
  }
  const node = c.linked
    ? { kind: 'Linked', isFallible: false, fieldName: c.fieldName, arguments: args, selections: [], concreteType: null }
    : { kind: 'Scalar', isFallible: false, fieldName: c.fieldName, arguments: args };
  const out = { ok: true };
  try {
    out.key = cache.__verif_getNetworkResponseKey(node);
  } catch (e) {
    out.threw = String(e);
  }
  if (c.variables != null) {
    try {
      out.parentRecordKey = cache.getParentRecordKey(node, c.variables);
    } catch (e) {
      out.parentRecordKeyThrew = String(e);
    }
  }
  if (c.echo) out.evaluated = jsonSafe(args);
  return out;
}

// ---------------------------------------------------------------------------------------------
// (b) normalize + read
//
// JSON representation of reader ASTs (what the Rust side / tsread produces):
//  * nodes are the artifact's object literals as JSON;
//  * where the runtime expects a thunk returning an artifact (`Resolver.readerArtifact`,
//    `Linked.condition`) the JSON holds the artifact object itself (import reference already
//    linked), or {"__thunk": artifact};
//  * a reader artifact is {kind, fieldName, readerAst, hasUpdatable, resolver}; `resolver` (a
//    function in the artifact) is one of
//        null / absent / anything unrecognised -> ({data}) => data
//        {"__fn":"js","source":"({ data }) => …"} -> that arrow function, evaluated (this is how
//                                                     compiler-GENERATED resolvers such as the
//                                                     `asFoo` refinements are passed verbatim)
//        {"__fn":"typename_refinement","typename":"T"} -> ({data}) => data.__typename === "T" ? data.__link : null
//        {"__fn":"const","value":v} -> () => v
//  * `ImperativelyLoadedField.refetchReaderArtifact.resolver` and entrypoint loaders are stubs
//    (readData only calls them lazily, from closures the driver never invokes).
const thunkCache = new WeakMap();

function reviveFn(spec) {
  if (typeof spec === 'function') return spec;
  if (spec && typeof spec === 'object' && typeof spec.__fn === 'string') {
    switch (spec.__fn) {
      case 'js':
        return evalJs(spec.source);
      case 'typename_refinement': {
        const t = spec.typename;
        return ({ data }) => (data.__typename === t ? data.__link : null);
      }
      case 'const': {
        const v = spec.value;
        return () => v;
      }
      default:
        break;
    }
  }
  return (p) => p.data;
}

function reviveArtifact(a) {
  if (a && typeof a === 'object' && '__thunk' in a) a = a.__thunk;
  if (a == null || typeof a !== 'object') throw new Error('reader artifact expected, got ' + JSON.stringify(a));
  return {
    kind: a.kind ?? 'EagerReaderArtifact',
    fieldName: a.fieldName ?? 'unnamed',
    readerAst: reviveReaderAst(a.readerAst ?? []),
    resolver: reviveFn(a.resolver),
    hasUpdatable: !!a.hasUpdatable,
  };
}

function thunkOf(jsonArtifact) {
  if (typeof jsonArtifact === 'function') return jsonArtifact;
  let t = thunkCache.get(jsonArtifact);
  if (!t) {
    let revived = null;
    t = () => (revived ??= reviveArtifact(jsonArtifact));
    thunkCache.set(jsonArtifact, t);
  }
  return t;
}

function reviveReaderAst(ast) {
  if (!Array.isArray(ast)) throw new Error('reader AST must be an array');
  return ast.map((n) => {
    switch (n.kind) {
      case 'Scalar':
      case 'Link':
        return n;
      case 'Linked':
        return {
          ...n,
          selections: reviveReaderAst(n.selections ?? []),
          condition: n.condition == null ? null : thunkOf(n.condition),
          refetchQueryIndex: n.refetchQueryIndex ?? null,
        };
      case 'Resolver':
        return { ...n, readerArtifact: thunkOf(n.readerArtifact), usedRefetchQueries: n.usedRefetchQueries ?? [] };
      case 'ImperativelyLoadedField':
        return {
          ...n,
          refetchReaderArtifact: {
            kind: 'RefetchReaderArtifact',
            readerAst: reviveReaderAst(n.refetchReaderArtifact?.readerAst ?? []),
            resolver: () => () => {},
          },
        };
      case 'LoadablySelectedField':
        return {
          ...n,
          refetchReaderAst: reviveReaderAst(n.refetchReaderAst ?? []),
          entrypoint:
            n.entrypoint && n.entrypoint.kind === 'EntrypointLoader'
              ? { ...n.entrypoint, loader: () => new Promise(() => {}) }
              : n.entrypoint,
        };
      default:
        throw new Error('unknown reader AST node kind ' + JSON.stringify(n.kind));
    }
  });
}

function reasonChain(res) {
  const chain = [];
  let cur = res;
  let link = null;
  while (cur && cur.kind === 'MissingData') {
    chain.push(cur.reason);
    link = cur.recordLink ?? link;
    cur = cur.nestedReason;
  }
  return { chain, link };
}

function summarize(res) {
  if (res.kind === 'Success') return { kind: 'Success', reasonChain: [] };
  const { chain, link } = reasonChain(res);
  return { kind: 'MissingData', reasonChain: chain, recordLink: link };
}

function dumpStore(store) {
  const layers = [];
  let cur = store;
  while (cur != null) {
    layers.push({ kind: cur.kind, data: jsonSafe(cur.data) });
    cur = cur.parentStoreLayer;
  }
  return layers;
}

const READ_OPTIONS = { suspendIfInFlight: false, throwOnNetworkError: false };

function runNormalizeAndRead(c) {
  let readerAst, selections, extraReads;
  try {
    const nast = c.normalizationAst;
    selections = Array.isArray(nast) ? nast : nast && Array.isArray(nast.selections) ? nast.selections : null;
    if (selections == null) throw new Error('normalizationAst must be an array of nodes or {selections}');
    readerAst = reviveReaderAst(c.readerAst ?? []);
    extraReads = (c.extraReads ?? []).map((r) => ({ ...r, readerAst: reviveReaderAst(r.readerAst ?? []) }));
    if (c.response == null || typeof c.response !== 'object') throw new Error('response must be an object');
  } catch (e) {
    return { ok: false, stage: 'driver', error: String(e) };
  }
  const variables = c.variables ?? {};
  const recorded = [];
  const componentFunction = (_env, fragmentReference) => {
    recorded.push(fragmentReference);
    return function VerifComponent() {
      return null;
    };
  };
  const networkFunction = () => Promise.reject(new Error('verif: no network head-less'));
  const environment = envMod.createIsographEnvironmentCore(
    envMod.createIsographStore(),
    networkFunction,
    componentFunction,
  );
  const root = { __link: envMod.ROOT_ID, __typename: c.concreteType ?? 'Query' };
  const out = { ok: true };
  try {
    if (!c.directIntoBaseLayer && typeof optimisticProxy.addNetworkResponseStoreLayer === 'function') {
      environment.store = optimisticProxy.addNetworkResponseStoreLayer(environment.store);
    }
    cache.normalizeData(environment, environment.store, selections, c.response, variables, root, new Map());
  } catch (e) {
    out.kind = 'Exception';
    out.stage = 'normalize';
    out.message = String(e);
    return out;
  }
  const networkRequest = promiseWrapper.wrapResolvedValue(undefined);
  const readOne = (ast, at, vars, nested) =>
    read.__verif_readData(environment, ast, at, vars, nested ?? [], networkRequest, READ_OPTIONS, new Map());
  let res;
  try {
    res = readOne(readerAst, root, variables, c.nestedRefetchQueries);
  } catch (e) {
    out.kind = 'Exception';
    out.stage = 'read';
    out.message = String(e);
    if (c.returnStore) out.store = dumpStore(environment.store);
    return out;
  }
  Object.assign(out, summarize(res));
  if (c.returnData && res.kind === 'Success') out.data = jsonSafe(res.data);

  out.extraReads = extraReads.map((r) => {
    try {
      const rr = readOne(r.readerAst, r.root ?? root, r.variables ?? {}, r.nestedRefetchQueries);
      return { label: r.label ?? null, ...summarize(rr) };
    } catch (e) {
      return { label: r.label ?? null, kind: 'Exception', message: String(e) };
    }
  });

  // Component readers are not read by readData (a component is returned instead): read each
  // recorded fragment reference explicitly, with the root and variables its parent gave it.
  out.componentReads = [];
  if (c.readComponents !== false) {
    for (let i = 0; i < recorded.length && i < 20000; i++) {
      const fr = recorded[i];
      const entry = { fieldName: fr.fieldName, root: fr.root, variables: jsonSafe(fr.variables ?? {}) };
      try {
        const rw = fr.readerWithRefetchQueries.result.value;
        const rr = readOne(rw.readerArtifact.readerAst, fr.root, fr.variables ?? {}, rw.nestedRefetchQueries);
        Object.assign(entry, summarize(rr));
      } catch (e) {
        entry.kind = 'Exception';
        entry.message = String(e);
      }
      out.componentReads.push(entry);
    }
  }
  if (c.returnStore) out.store = dumpStore(environment.store);
  return out;
}

function runCase(c) {
  switch (c.kind) {
    case 'ping':
      return { ok: true, pong: true };
    case 'response_key':
      return runResponseKey(c);
    case 'normalize_and_read':
      return runNormalizeAndRead(c);
    default:
      return { ok: false, stage: 'driver', error: 'unknown case kind ' + JSON.stringify(c.kind) };
  }
}

const rl = createInterface({ input: inFile ? createReadStream(inFile) : process.stdin, crlfDelay: Infinity });
for await (const line of rl) {
  if (line.trim() === '') continue;
  let c;
  try {
    c = JSON.parse(line);
  } catch (e) {
    emit({ ok: false, stage: 'driver', error: 'case is not JSON: ' + String(e) });
    continue;
  }
  let r;
  try {
    r = runCase(c);
  } catch (e) {
    r = { ok: false, stage: 'driver', error: String(e && e.stack ? e.stack : e) };
  }
  if (c && c.id !== undefined) r.id = c.id;
  emit(r);
}
if (outFile) closeSync(outFd);
