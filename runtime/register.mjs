// Registers the loader hooks (see loader.mjs). Use: node --import /verif/runtime/register.mjs <script>
import { register } from 'node:module';

register('./loader.mjs', import.meta.url);
